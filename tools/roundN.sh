#!/bin/bash
# tools/roundN.sh N CNN [CNN...]  - verify the round-N deliverables (/tmp/wtN/CNN/_mut) of the given properties, keep confirmed ones as <prop>-<prop>rN-mK
cd /verif; R=$1; shift
for P in "$@"; do
  for n in 1 2 3; do
    [ -f /tmp/wt$R/$P/_mut/m$n.diff ] || continue
    SUFFIX=r$R tools/seed_verify.sh $P /tmp/wt$R/$P $n 2>&1 | grep -E "check C|signature|NOT CONF|apply|CONFIRMED" | cut -c1-260
  done
done

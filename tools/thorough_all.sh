#!/bin/bash
# tools/thorough_all.sh [ids...]  - development sweep: thorough tier of every check in bucket-everything mode; prints only the buckets and summaries
IDS=${@:-C02 C05 C08 C10 C01 C04 C06 C07 C09 C11 C12 C13 C14 C15 C16 C17 C18 C19 C20 C03}
for id in $IDS; do
  echo "=== $id $(date +%T)"
  VERIF_COLLECT=1 VERIF_SEED=${VERIF_SEED:-4242} VERIF_EVIDENCE_DIR=/tmp/ev_thorough ./check $id thorough 2>&1 | grep -v "^KNOWN-FINDING" | grep -A2 -E "^COLLECTED|^HARNESS|^VIOLATION|^$id " | cut -c1-600
done

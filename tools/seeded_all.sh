#!/bin/bash
# tools/seeded_all.sh [tier] [parallel] [filter-regex]  - every kept mutation against the current checks; table in seeded/MATRIX.txt
# lines are appended to /tmp/matrix_partial.txt as they finish (a run that is cut short still leaves what it covered)
cd /verif; TIER=${1:-quick}; P=${2:-4}; F=${3:-.}
: > /tmp/matrix_partial.txt
ls seeded | grep -v -E "RESULTS|MATRIX|README|REPORTED" | grep -E "$F" | xargs -P $P -I{} sh -c "tools/seeded_one.sh {} $TIER >> /tmp/matrix_partial.txt"
{ echo "# $(date +%F_%T) repo=$(git -C /repo log --format=%h -1) verif=$(git -C /verif log --format=%h -1) tier=$TIER"; sort /tmp/matrix_partial.txt; } > seeded/MATRIX.txt
grep -c "rc=1" seeded/MATRIX.txt; grep -v "rc=1" seeded/MATRIX.txt

#!/bin/bash
# tools/seeded_all.sh [tier] [parallel]  - every kept mutation against the current checks; table in seeded/MATRIX.txt
cd /verif; TIER=${1:-quick}; P=${2:-4}
ls seeded | grep -v -E "RESULTS|MATRIX|README" | xargs -P $P -I{} tools/seeded_one.sh {} $TIER | sort > /tmp/matrix_$$.txt
{ echo "# $(date +%F_%T) repo=$(git -C /repo log --format=%h -1) verif=$(git -C /verif log --format=%h -1) tier=$TIER"; cat /tmp/matrix_$$.txt; } > seeded/MATRIX.txt; rm -f /tmp/matrix_$$.txt
grep -c "rc=1" seeded/MATRIX.txt; grep -v "rc=1" seeded/MATRIX.txt

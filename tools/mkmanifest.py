#!/venv/bin/python
"""Regenerate MANIFEST.json from the check modules that exist (vf/checks/cNN.py); everything else goes to not_applicable."""
import importlib, json, os, sys
ROOT = os.path.dirname(os.path.dirname(os.path.abspath(__file__)))
sys.path.insert(0, ROOT)
props = [json.loads(l) for l in open(os.path.join(ROOT, "properties.jsonl"))]
checks, na = [], []
for p in props:
    pid = p["id"]
    path = os.path.join(ROOT, "vf", "checks", pid.lower() + ".py")
    if not os.path.exists(path):
        na.append({"property_id": pid, "reason": "check not built yet in this session (the technique applies; design in DESIGN.md section 4); not claimed until a registered check exists"})
        continue
    m = importlib.import_module(f"vf.checks.{pid.lower()}")
    checks.append({
        "property_id": pid,
        "quick_cmd": f"./check {pid} quick",
        "thorough_cmd": f"./check {pid} thorough",
        "evidence_file": f"/verif/evidence/{pid}.json",
        "replay_cmd_template": f"./check {pid} --replay {{path}}",
        "engine": m.ENGINE,
        "level_claimed": {"category": m.LEVEL, "text": m.LEVEL_TEXT, "design_ref": f"DESIGN.md section 4 ({pid})"},
        "level_note": m.LEVEL_NOTE,
        "technique": m.TECHNIQUE,
    })
man = {
    "version": 1,
    "setup_cmd": "/venv/bin/pip install -q --no-index --find-links /opt/veriftools/wheels hypothesis && /venv/bin/pip install -q --no-index --find-links /opt/veriftools/wheels --target /verif/.deps atheris || true",
    "hooks": {"guard": "JSONARGPARSE_VERIF", "enable": "no source hooks are needed: every observation point is public API, stdout/stderr, the file system or generated user code; ./check exports JSONARGPARSE_VERIF=1 for form only",
              "baseline_off_cmd": "cd /repo && /venv/bin/python -m pytest -ra -q -p no:cacheprovider --timeout=900 --continue-on-collection-errors",
              "source_commits": [], "add_only": True},
    "engines": [
        {"name": "hypothesis", "path": "/venv/lib/python3.12/site-packages/hypothesis", "serves_properties": [c["property_id"] for c in checks], "kind_free_text": "property-based testing (given + rule-based state machines), seeded from VERIF_SEED, database off"},
        {"name": "atheris", "path": "/verif/.deps/atheris", "serves_properties": ["C03"], "kind_free_text": "coverage-guided fuzzing (libFuzzer) of the structured Hypothesis generator through fuzz_one_input, package instrumented at import; thorough tier of C03 (4 of 16 shards); falls back to plain search if the wheel could not be installed"},
        {"name": "enumeration", "path": "/verif/vf", "serves_properties": [c["property_id"] for c in checks if "enumerat" in c["technique"]], "kind_free_text": "complete enumeration of finite sub-spaces with the same oracles"},
    ],
    "checks": checks,
    "not_applicable": na,
    "notes": "Technique family: property-based testing and fuzzing. Runner: /verif/check -> vf/runner.py (16 fresh shard processes, PYTHONHASHSEED=0, VERIF_SEED). known_findings.json lists recorded and fixed defects; replays/ holds committed regression replays; seeded/ holds independently written breaking changes and RESULTS.log of what the checks did with them.",
}
json.dump(man, open(os.path.join(ROOT, "MANIFEST.json"), "w"), indent=1)
print("checks:", [c["property_id"] for c in checks], "not_applicable:", len(na))

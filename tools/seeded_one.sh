#!/bin/bash
# tools/seeded_one.sh <seeded id> [tier]  - re-confirm one kept mutation on the current /repo HEAD and run the check of its property on it
# prints one line:  <id> apply=<ok|FAIL> demo_clean=<rc> demo_mut=<rc> check=<prop> rc=<rc> <first signature>
set -u
ID=$1; TIER=${2:-quick}; D=/verif/seeded/$ID
PROP=$(/venv/bin/python -c "import json,sys; m=json.load(open('$D/meta.json')); print(m.get('check_with') or m['breaks_property'])")
CHECKPROP=${CHECK_PROP:-$PROP}
W=$(mktemp -d /tmp/so_XXXXXX); rmdir $W
git -C /repo worktree add -q --detach $W HEAD || exit 3
trap 'git -C /repo worktree remove --force $W 2>/dev/null; rm -rf $W /tmp/so_ev_$$ /tmp/so_found_$$' EXIT
mkdir -p $W/_mut; cp $D/demo.py $W/_mut/demo.py
( cd $W && PYTHONPATH=$W timeout 300 /venv/bin/python _mut/demo.py >/dev/null 2>&1 ); RC_CLEAN=$?
if ! git -C $W apply $D/patch.diff 2>/dev/null; then echo "$ID apply=FAIL"; exit 0; fi
( cd $W && PYTHONPATH=$W timeout 300 /venv/bin/python _mut/demo.py >/dev/null 2>&1 ); RC_MUT=$?
OUT=$(cd /verif && VERIF_REPO=$W VERIF_EVIDENCE_DIR=/tmp/so_ev_$$ VERIF_FOUND_DIR=/tmp/so_found_$$ timeout 6000 ./check $CHECKPROP $TIER 2>&1); RC=$?
SIG=$(echo "$OUT" | grep -m1 "signature:" | sed 's/^ *signature: //')
echo "$ID apply=ok demo_clean=$RC_CLEAN demo_mut=$RC_MUT check=$CHECKPROP tier=$TIER rc=$RC $SIG"

#!/venv/bin/python
"""tools/kf.py add <json-object>   - append an entry to known_findings.json (development helper; never used at run time)"""
import json, sys
p = '/verif/known_findings.json'
kf = json.load(open(p))
e = json.loads(sys.stdin.read())
es = e if isinstance(e, list) else [e]
for x in es:
    kf['findings'] = [f for f in kf['findings'] if not (f['property'] == x['property'] and f['signature'] == x['signature'] and f.get('root_cause') == x.get('root_cause'))]
    kf['findings'].append(x)
json.dump(kf, open(p, 'w'), indent=1)
print(len(kf['findings']), 'entries')

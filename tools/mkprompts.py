#!/venv/bin/python
"""tools/mkprompts.py <round> - write the sub-agent prompt files /tmp/wt<round>/prompts/CNN.txt (only the property text + a scratch worktree path)."""
import json, sys
R = sys.argv[1]
T = '''You are helping to evaluate a verification effort for the Python library jsonargparse (omni-us/jsonargparse 4.38.0).
Your job: act as a realistic source of REGRESSIONS. Produce TWO independent, alternative code changes ("mutations") to the
library, each of which breaks the semantic property stated below, while the library still imports and the existing test
suite still passes exactly as before.

PROPERTY {id}: {title}
{statement}
It is quantified over: {quant}

YOUR SCRATCH COPY: a git worktree of the library at {wt} (branch-less, detached HEAD). Work ONLY inside {wt}.
Do NOT read, list or touch anything under /verif, /repo, /root/.claude or /root/.vp, and do not look at other
directories under /tmp/wt{R} or any other /tmp/wt* directory. There is no network.

TOOLS: /venv/bin/python (3.12) has all dependencies (pytest, pyyaml, ...). To import the scratch copy instead of the installed
one, always run with the scratch copy first on the path:
    cd {wt} && PYTHONPATH={wt} /venv/bin/python <script>
and check jsonargparse.__file__ starts with {wt}. Run the existing suite like this (about 30 s):
    cd {wt} && PYTHONPATH={wt} /venv/bin/python -m pytest -q -p no:cacheprovider --timeout=900 jsonargparse_tests 2>&1 | tail -15
Run it once BEFORE changing anything and note the result (if some tests fail or are skipped in this sandbox before your change,
that is the baseline; "passing the suite" means exactly the same set of tests passes).

WHAT MAKES A GOOD MUTATION
 * It is a plausible change a maintainer could make by accident: a refactoring slip, an "optimisation", a changed default,
   a dropped copy / guard / branch, a reordered step, an off-by-one, a cache, a wrong operator. Small (1-15 lines),
   only files under {wt}/jsonargparse/ (not the tests).
 * It really violates the property as stated (for some input, history, configuration or sequence of calls the user-visible
   behaviour contradicts the statement) - not merely a cosmetic change (messages, logging, help text) and not something
   outside the statement.
 * It must NOT be exposed by ordinary use at once. It should need something specific to manifest: an unusual input or
   value, a particular nesting or combination of types, a multi-step sequence of operations, a failure at a particular point,
   a particular ordering, or two cooperating sites that each look fine alone. A change that breaks the very first simple
   example anybody tries is not wanted (and would fail the suite anyway).
 * The two mutations must be independent (each applied alone to a clean tree), have different root causes and preferably sit in
   different functions / touch different aspects of the property.
 * The whole existing suite must still pass with each mutation applied alone.

DELIVERABLES (create the directory {wt}/_mut):
  {wt}/_mut/m1.diff, {wt}/_mut/m2.diff  - each the output of `git diff` (relative to HEAD, paths like a/jsonargparse/...) for ONE mutation
                                          applied alone; must apply with `git apply` to a clean checkout.
  {wt}/_mut/demo1.py, {wt}/_mut/demo2.py - small stand-alone programs (no pytest needed) that exit with status 0 on the unchanged
                                          library and with a NON-zero status (assertion failure is fine) when the corresponding
                                          mutation is applied. They are run as
                                             cd <tree> && PYTHONPATH=<tree> /venv/bin/python _mut/demoN.py
                                          so do not hard-code {wt} for imports. Each demo should check the property (behaviour a user
                                          relies on), not an implementation detail, and print what it observed.
  {wt}/_mut/notes.json                  - a JSON object {{"m1": {{...}}, "m2": {{...}}}}, each with keys
                                          "summary" (what was changed), "breaks" (which clause of the property and how),
                                          "needs" (what specific input / sequence / combination is needed for it to manifest),
                                          "suite" (the tail line of the pytest run with the mutation applied).
Procedure for each mutation: edit, run demo (must fail), run the FULL suite (must equal baseline), save `git diff -- jsonargparse > _mut/mN.diff`,
then `git checkout -- jsonargparse` and run the demo again (must pass). Leave the worktree clean (only the untracked _mut directory) when done.
If after serious effort you can only find one mutation that passes the suite, deliver one and say so in notes.json.
Your final message should be a 5-line summary of the two mutations.
{extra}'''
EXTRA = {
 '5': '''
ADDITIONAL GUIDANCE FOR THIS ROUND: four earlier rounds already produced (1) the straightforward mutations in the most obvious
function, (2) second-order ones (state carried between calls on one parser, ordering of steps, caches, cleanup paths), (3) ones
hidden behind less common argument kinds, channels, nesting depths and edge values, and (4) interactions of two ordinary features,
declaration / input orders and numeric / text boundary values. For this round aim at what is STILL likely to be unexercised by a
generated-input checker built from the documentation:
  * documented features that are rarely reached: typing forms such as TypedDict / NamedTuple / Annotated / Mapping / MutableSequence /
    FrozenSet / deque / Dict with float or Enum keys / Type[...] / Literal of mixed kinds / forward references and `from __future__ import
    annotations`, Protocol / abstract bases, generic dataclasses, dataclass inheritance, pydantic-free "final" classes, `lazy_instance`
    defaults, `set_defaults` after arguments exist, `dict_kwargs`, `fail_untyped=False`, `sub_configs=True`, `skip` sets, `as_group=False`,
    `as_positional`, `nested_key`, hyphenated option names, parser_mode variants, `default_meta`, `dump(skip_none / skip_check / skip_link_targets)`,
    `CLI`/`auto_cli` corner arguments, `capture_parser`, `ArgumentParser.merge_config`, `strip_meta`, `Namespace.update/clone`,
    `parse_known_args`, `add_argument(..., enable_path=True)`, `register_type` with custom (de)serializers, `path_type` with custom modes,
    relative paths inside nested config files;
  * helper functions far away from the obvious entry point through which only some of the inputs travel (e.g. `_util`, `_loaders_dumpers`,
    `_namespace`, `_common`, `_optionals`, `_parameter_resolvers`, `_link_arguments`, `_signatures`, `_typehints` helpers), where a slip is
    visible only for one type constructor, one channel or one position of a value;
  * a slip that only shows on the SECOND level of something (a subcommand of a subcommand, a dataclass inside a dataclass inside a list,
    a link whose source is itself a link target, a config file that includes another config file, an override of an override).
Read the code paths the property depends on and choose a place where a small slip changes behaviour only for such a combination. The
tree you work on already contains many recent bug fixes; treat it as the reference behaviour.

SECOND DELIVERABLE (optional but valued): while probing the UNCHANGED tree you may notice inputs for which the reference
implementation itself already violates the property statement. If so, write {wt}/_mut/existing_defects.json: a JSON list of at most
ten objects {{"summary", "minimal_reproduction" (a short python snippet), "observed", "expected"}}. Only include cases you actually
reproduced on the clean tree and that clearly contradict the statement as written. Do not try to fix them.
''',
}
EXTRA['6'] = '''
ADDITIONAL GUIDANCE FOR THIS ROUND: five earlier rounds already produced mutations in the obvious functions, in second-order state
(caches, cleanup paths, call histories), behind rare argument kinds / typing forms / channels / nesting depths / edge values, in the
interaction of two ordinary features, and in helpers that only some inputs travel through. For this round:
  * prefer the CENTRAL code the property flows through (ArgumentParser._parse_common / _apply_actions / merge_config / _load_env_vars /
    parse_known_args patching / get_defaults / dump / save / validate, adapt_typehints' main branches, ActionTypeHint._check_type,
    Namespace._parse_key / __setitem__ / update / clone / as_dict, Path.__init__ / __call__ / relative_path_context, ActionLink.apply_* /
    instantiation_order, _ActionSubCommands.get_subcommands / handle_subcommands, the parameter resolvers' visitors, the loaders / dumpers),
    and make the slip SUBTLE there: a boundary (< vs <=, [1:] vs [:-1]), the wrong one of two similarly named variables, an early
    return / continue that skips the tail of a loop body, a condition made slightly too wide or too narrow (isinstance vs type() is,
    `is None` vs falsy, `in` vs startswith), an in-place operation where a copy was made (or the reverse), a default argument that
    became shared, a sort that lost its stability or key, a dict/set iteration order that replaces a declared order;
  * or TWO cooperating sites that each look harmless alone (a helper returns a slightly different shape and one of its callers
    compensates, so only the other callers see it);
  * or behaviour behind documented parser OPTIONS and call FLAGS that tests rarely vary: env_prefix (True / False / a string),
    default_env on sub-parsers, default_meta / with_meta / strip_meta, skip_none / skip_default / skip_validation of dump and save,
    defaults=False, env=True/False arguments of the parse methods, set_defaults, add_argument(..., required=True) for options,
    nargs with type hints, choices, metavar, ActionParser prefixes, dest different from the option name, abbreviations.
The change must still break the property AS STATED (re-read the statement; a demo that needs behaviour outside the statement is not
wanted) and must survive the existing suite. The tree you work on already contains many recent bug fixes; treat it as the reference.

SECOND DELIVERABLE (optional): while probing the UNCHANGED tree you may notice inputs for which the reference implementation itself
already violates the property statement. If so, write {wt}/_mut/existing_defects.json: a JSON list of at most six objects
{{"summary", "minimal_reproduction" (a short python snippet), "observed", "expected"}}; only cases you reproduced on the clean tree that
clearly contradict the statement as written and that were probably NOT reported before (avoid: Decimal through float, Infinity in json,
YAML-null look-alike strings, C1 control characters, empty-mapping foreign keys, Dict with non-str/int keys, FrozenSet, defaults that
are not normalised, meta keys, abbreviations, skip_none dropping None). Do not try to fix them.
'''
for l in open('/verif/properties.jsonl'):
    p = json.loads(l)
    wt = f"/tmp/wt{R}/{p['id']}"
    extra = EXTRA.get(R, '').format(wt=wt)
    open(f"/tmp/wt{R}/prompts/{p['id']}.txt", 'w').write(T.format(id=p['id'], title=p['title'], statement=p['statement'], quant=p['quantifier']['text'], wt=wt, R=R, extra=extra))

#!/bin/bash
# tools/round2.sh CNN [CNN...]  - verify the round-2 deliverables of the given properties (both mutations each), keep confirmed ones as <prop>-<prop>r2-mN
cd /verif
for P in "$@"; do
  for n in 1 2 3; do
    [ -f /tmp/wt2/$P/_mut/m$n.diff ] || continue
    SUFFIX=r2 tools/seed_verify.sh $P /tmp/wt2/$P $n 2>&1 | grep -E "check C|signature|NOT CONF|apply|CONFIRMED" | cut -c1-260
  done
done

#!/bin/bash
# tools/collect.sh <ID> [tier]  - development aid: bucket every divergence (never fails), compact output
cd /verif; VERIF_COLLECT=1 VERIF_EVIDENCE_DIR=/tmp/ev_collect timeout 3000 ./check $1 ${2:-quick} 2>&1 | /venv/bin/python -c "
import sys,re
lines=sys.stdin.read().split('\n'); i=0
while i < len(lines):
    l=lines[i]
    if l.startswith('COLLECTED'):
        print(l[:160]); print('   ', lines[i+1].strip()[:${W:-330}]); print('   ', lines[i+2].strip()[:${W:-330}]); i+=3; continue
    if l.startswith(('HARNESS','VIOLATION','KNOWN','NOTE')) or re.match(r'^C\d\d ', l): print(l[:400])
    i+=1
"

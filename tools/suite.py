#!/venv/bin/python
"""Run the repository's pinned suite (guard off) and compare with /root/.vp/BASELINE.json stable_pass.
usage: tools/suite.py [repo_dir]   exit 0 iff every stable_pass test passed."""
import json, subprocess, sys, tempfile, os, xml.etree.ElementTree as ET
repo = sys.argv[1] if len(sys.argv) > 1 else '/repo'
base = json.load(open('/root/.vp/BASELINE.json'))
out = tempfile.mktemp(suffix='.xml')
env = dict(os.environ); env.pop('JSONARGPARSE_VERIF', None)
subprocess.run(['/venv/bin/python', '-m', 'pytest', '-q', '-p', 'no:cacheprovider', '--timeout=900',
                '--continue-on-collection-errors', '-x' if '--x' in sys.argv else '-q', f'--junitxml={out}'],
               cwd=repo, env=env, stdout=subprocess.DEVNULL, stderr=subprocess.DEVNULL)
passed = set()
for tc in ET.parse(out).getroot().iter('testcase'):
    if not any(ch.tag in ('failure', 'error', 'skipped') for ch in tc):
        passed.add(f"{tc.get('classname')}::{tc.get('name')}")
os.unlink(out)
missing = [t for t in base['stable_pass'] if t not in passed]
print(f"stable_pass={len(base['stable_pass'])} passed_now={len(passed)} regressions={len(missing)}")
for m in missing[:40]: print('  REGRESSION', m)
sys.exit(1 if missing else 0)

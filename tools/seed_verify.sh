#!/bin/bash
# tools/seed_verify.sh <PROP> <agent worktree dir> <n>   - confirm a sub-agent's mutation m<n> independently, store it under seeded/, run our check on it
# 1. fresh scratch worktree of /repo HEAD; demo passes; 2. apply diff; demo fails; 3. suite unchanged; 4. ./check PROP quick on mutated tree
set -u
PROP=$1; SRC=$2; N=$3; TIER=${4:-quick}
ID="${PROP}-$(basename $SRC)${SUFFIX:-}-m$N"
W=$(mktemp -d /tmp/sv_XXXXXX); rmdir $W
git -C /repo worktree add -q --detach $W HEAD || exit 3
cleanup() { git -C /repo worktree remove --force $W 2>/dev/null; rm -rf $W /tmp/sv_ev_$$ /tmp/sv_found_$$; }
trap cleanup EXIT
mkdir -p $W/_mut; cp $SRC/_mut/demo$N.py $W/_mut/demo$N.py
( cd $W && PYTHONPATH=$W timeout 300 /venv/bin/python _mut/demo$N.py >/tmp/sv_demo_clean_$$.log 2>&1 ); RC_CLEAN=$?
git -C $W apply $SRC/_mut/m$N.diff || { echo "$ID: patch does not apply"; exit 3; }
( cd $W && PYTHONPATH=$W timeout 300 /venv/bin/python _mut/demo$N.py >/tmp/sv_demo_mut_$$.log 2>&1 ); RC_MUT=$?
SUITE=$(/verif/tools/suite.py $W | head -1)
echo "$ID: demo clean rc=$RC_CLEAN mutated rc=$RC_MUT suite: $SUITE"
OK=1
[ $RC_CLEAN -eq 0 ] || OK=0; [ $RC_MUT -ne 0 ] || OK=0; echo "$SUITE" | grep -q "regressions=0" || OK=0
if [ $OK -eq 1 ]; then
  D=/verif/seeded/$ID; mkdir -p $D
  cp $SRC/_mut/m$N.diff $D/patch.diff; cp $SRC/_mut/demo$N.py $D/demo.py
  /venv/bin/python - "$PROP" "$SRC" "$N" "$D" "$SUITE" "$(tail -3 /tmp/sv_demo_mut_$$.log)" <<'P'
import json, sys
prop, src, n, d, suite, tail = sys.argv[1:]
notes = {}
try: notes = json.load(open(f"{src}/_mut/notes.json")).get(f"m{n}", {})
except Exception as e: notes = {"notes_error": str(e)}
json.dump({"breaks_property": prop, "summary": notes.get("summary"), "breaks": notes.get("breaks"), "needs_to_manifest": notes.get("needs"),
  "what_i_ran": [f"fresh worktree of /repo HEAD: demo.py exit 0", "git apply patch.diff: demo.py exit non-zero", f"tools/suite.py on the mutated tree: {suite}"],
  "demo_output_tail_mutated": tail, "author": "independent sub-agent given only the property text"}, open(f"{d}/meta.json","w"), indent=1)
P
  echo "$ID: CONFIRMED -> $D"
else
  echo "$ID: NOT CONFIRMED"; tail -5 /tmp/sv_demo_clean_$$.log /tmp/sv_demo_mut_$$.log; rm -f /tmp/sv_demo_*_$$.log; exit 4
fi
rm -f /tmp/sv_demo_*_$$.log
OUT=$(cd /verif && VERIF_REPO=$W VERIF_EVIDENCE_DIR=/tmp/sv_ev_$$ VERIF_FOUND_DIR=/tmp/sv_found_$$ timeout 3000 ./check $PROP $TIER 2>&1); RC=$?
echo "$OUT" | grep -E "^VIOLATION|signature:|HARNESS" | head -6
echo "$ID: check $PROP $TIER rc=$RC  ($(echo "$OUT" | tail -1))"
echo "$(date +%F_%T) $ID check=$PROP tier=$TIER rc=$RC $(echo "$OUT" | grep -m1 -A1 '^VIOLATION' | tr '\n' ' ' | cut -c1-300)" >> /verif/seeded/RESULTS.log

"""Reference model of jsonargparse.Namespace: a nested ordered mapping addressed by dotted keys.

Two node kinds: ``NS`` (branch) and leaf (any other value).  A plain ``dict`` value is a leaf whose items can be
addressed *through* (pinned by test_namespace.py::test_set_item_nested_dict).  The model knows nothing about clash marks.
Nothing here imports the implementation.
"""
import copy


class NS(dict):
    """branch node (insertion ordered)"""

    def __repr__(self):
        return "NS(" + ", ".join(f"{k}={v!r}" for k, v in self.items()) + ")"


def split(key):
    if not isinstance(key, str):
        raise KeyError("not str")
    if " " in key:
        raise KeyError("space")
    parts = key.split(".")
    if any(p == "" for p in parts):
        raise KeyError("empty")
    return parts


def lookup_parent(root, parts):
    """-> (parent mapping | None, leaf name).  None when the path is missing or blocked by a non-mapping value."""
    cur = root
    for p in parts[:-1]:
        if isinstance(cur, dict) and p in cur:
            cur = cur[p]
        else:
            return None, parts[-1]
        if not isinstance(cur, dict):
            return None, parts[-1]
    return cur, parts[-1]


def through_dict(root, key):
    """True when addressing ``key`` has to pass through (or end inside) a plain-dict leaf of the model."""
    try:
        parts = split(key)
    except KeyError:
        return False
    cur = root
    for p in parts[:-1]:
        if isinstance(cur, dict) and p in cur:
            cur = cur[p]
        else:
            return False
        if isinstance(cur, dict) and not isinstance(cur, NS):
            return True
        if not isinstance(cur, dict):
            return False
    return False


def m_set(root, key, val):
    parts = split(key)
    parent, leaf = lookup_parent(root, parts)
    if parent is None:
        cur = root
        for p in parts[:-1]:
            if not isinstance(cur.get(p), NS):
                cur[p] = NS()
            cur = cur[p]
        parent = cur
    parent[leaf] = val


def m_get(root, key):
    parts = split(key)
    parent, leaf = lookup_parent(root, parts)
    if parent is None or leaf not in parent:
        raise KeyError(key)
    return parent[leaf]


def m_contains(root, key):
    try:
        m_get(root, key)
        return True
    except KeyError:
        return False


def m_del(root, key):
    parts = split(key)
    parent, leaf = lookup_parent(root, parts)
    if parent is None or leaf not in parent:
        raise KeyError(key)
    del parent[leaf]


def m_pop(root, key, default=None):
    split(key)  # invalid keys raise
    try:
        v = m_get(root, key)
    except KeyError:
        return default
    m_del(root, key)
    return v


def m_items(root, prefix="", branches=False):
    for k, v in root.items():
        if isinstance(v, NS):
            if branches:
                yield prefix + k, v
            yield from m_items(v, prefix + k + ".", branches)
        else:
            yield prefix + k, v


def m_update(root, value, key=None, only_unset=False):
    if not isinstance(value, NS):
        if not key:
            raise KeyError("key required")
        split(key)
        if not only_unset or not m_contains(root, key):
            m_set(root, key, value)
    else:
        prefix = key + "." if key else ""
        for k, v in list(m_items(value)):
            if not only_unset or not m_contains(root, prefix + k):
                m_set(root, prefix + k, v)


def m_as_dict(root):
    """nested dictionaries all the way down: a namespace is a mapping wherever it sits, also inside lists / tuples / dicts"""
    def conv(v):
        if isinstance(v, NS):
            return m_as_dict(v)
        if isinstance(v, dict):
            return {kk: conv(x) for kk, x in v.items()}
        if isinstance(v, (list, tuple)):
            return type(v)(conv(x) for x in v)
        return v

    return {k: conv(v) for k, v in root.items()}


def m_clone(root):
    return copy.deepcopy(root)


def has_dict_leaf(v, in_container=False):
    """a plain dict anywhere below (a value that dict_to_namespace would turn into a branch), or a namespace held inside a list /
    tuple (which as_dict turns into a dict that the way back leaves a dict)"""
    if isinstance(v, NS):
        return in_container or any(has_dict_leaf(x) for x in v.values())
    if isinstance(v, dict):
        return True
    if isinstance(v, (list, tuple)):
        return any(has_dict_leaf(x, True) for x in v)
    return False


def same(a, b):
    """typed structural equality between two model values (branch kind, order of keys, types of leaves)"""
    if isinstance(a, NS) != isinstance(b, NS):
        return False
    if isinstance(a, dict) and isinstance(b, dict):
        return list(a.keys()) == list(b.keys()) and all(same(a[k], b[k]) for k in a)
    if type(a) is not type(b):
        return False
    if isinstance(a, (list, tuple)):
        return len(a) == len(b) and all(same(x, y) for x, y in zip(a, b))
    return a == b

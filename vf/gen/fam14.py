"""Class family for C14 (importable: vf.gen.fam14.<Name>). Every constructor logs (class name of self, own name, kwargs)."""
import abc
from typing import Dict, List, Optional, Union

LOG = []


class Base:
    def __init__(self, a: int = 1, b: str = "b"):
        LOG.append(("Base", type(self).__name__, dict(a=a, b=b)))
        self.a, self.b = a, b


class Child(Base):
    def __init__(self, c: float = 0.5, **kwargs):
        super().__init__(**kwargs)
        LOG.append(("Child", type(self).__name__, dict(c=c, **kwargs)))
        self.c = c


class Child2(Base):
    """overrides the type of ``a`` and does not forward ``b``"""

    def __init__(self, a: str = "override", d: Optional[int] = None):
        LOG.append(("Child2", type(self).__name__, dict(a=a, d=d)))
        self.a, self.d = a, d


class Req(Base):
    def __init__(self, r: int, **kwargs):
        super().__init__(**kwargs)
        LOG.append(("Req", type(self).__name__, dict(r=r, **kwargs)))
        self.r = r


class Loose(Base):
    """accepts arbitrary extra keyword arguments (the documented use of dict_kwargs)"""

    def __init__(self, a: int = 1, **extra):
        super().__init__(a=a)
        LOG.append(("Loose", type(self).__name__, dict(a=a, **extra)))
        self.extra = extra


class GrandChild(Child):
    def __init__(self, e: List[int] = [], **kwargs):
        super().__init__(**kwargs)
        LOG.append(("GrandChild", type(self).__name__, dict(e=e, **kwargs)))
        self.e = e


class Abstract(abc.ABC):
    @abc.abstractmethod
    def run(self): ...


class Concrete(Abstract):
    def __init__(self, n: int = 3):
        LOG.append(("Concrete", type(self).__name__, dict(n=n)))
        self.n = n

    def run(self):
        return self.n


class Other:
    def __init__(self, z: int = 0):
        LOG.append(("Other", type(self).__name__, dict(z=z)))
        self.z = z


class Holder:
    def __init__(self, inner: Base, many: List[Base] = [], opt: Optional[Base] = None, table: Dict[str, Base] = {}, u: Union[int, Base] = 3):
        LOG.append(("Holder", type(self).__name__, dict(inner=inner, many=many, opt=opt, table=table, u=u)))
        self.inner, self.many, self.opt, self.table, self.u = inner, many, opt, table, u


def make_base(a: int = 7) -> Base:
    return Base(a=a)


def make_child(c: float = 2.5) -> Child:
    return Child(c=c)


def make_other(z: int = 1) -> Other:
    return Other(z=z)


def make_untyped(a: int = 1):
    return Base(a=a)


not_a_class = 5


class _Hidden(Base):
    """a non-public intermediate class: not offered itself, but its public subclasses are subclasses of Base like any other"""

    def __init__(self, h: int = 2, **kwargs):
        super().__init__(**kwargs)
        LOG.append(("_Hidden", type(self).__name__, dict(h=h, **kwargs)))
        self.h = h


class ViaHidden(_Hidden):
    def __init__(self, v: int = 6, **kwargs):
        super().__init__(**kwargs)
        LOG.append(("ViaHidden", type(self).__name__, dict(v=v, **kwargs)))
        self.v = v


# --- dataclass-like and Protocol typed arguments (C14 enumerated family) -------------------------------------------------
import dataclasses as _dc  # noqa: E402
from typing import Protocol, final  # noqa: E402


@_dc.dataclass
class DSettings:
    size: int = 1
    name: str = "s"


class Engine:
    def __init__(self, size: int = 5, name: str = "e"):
        LOG.append(("Engine", type(self).__name__, dict(size=size, name=name)))
        self.size, self.name = size, name


class Unrelated:
    def __init__(self, size: int = 9):
        LOG.append(("Unrelated", type(self).__name__, dict(size=size)))
        self.size = size


@final
class Sealed:
    def __init__(self, size: int = 2):
        self.size = size


class Model(Protocol):
    def fit(self, x: int) -> int: ...

    def predict(self, x: int) -> int: ...


class FullModel:
    def __init__(self, size: int = 1):
        self.size = size

    def fit(self, x: int) -> int:
        return x

    def predict(self, x: int) -> int:
        return x


class OnlyFit:
    def __init__(self, size: int = 1):
        self.size = size

    def fit(self, x: int) -> int:
        return x


class WrongSig:
    def __init__(self, size: int = 1):
        self.size = size

    def fit(self, y: str) -> int:
        return 0

    def predict(self, x: int) -> int:
        return x


class NoMethods:
    def __init__(self, size: int = 1):
        self.size = size

"""Generated programs are written to real .py files (the AST resolver needs inspect.getsource) in a scratch package that lives
outside /repo and /verif, imported under process-unique module names and removed again."""
import importlib
import os
import shutil
import sys
import tempfile

_DIR = [None]
_COUNT = [0]


def scratch_pkg():
    if _DIR[0] is None:
        _DIR[0] = tempfile.mkdtemp(prefix="vf_prog_")
        sys.path.insert(0, _DIR[0])
        import atexit

        atexit.register(cleanup)
    return _DIR[0]


def cleanup():
    if _DIR[0] and os.path.isdir(_DIR[0]):
        shutil.rmtree(_DIR[0], ignore_errors=True)


def load_source(src, stem="m"):
    """write ``src`` to a new module file and import it -> module"""
    d = scratch_pkg()
    _COUNT[0] += 1
    name = f"vfgen_{stem}_{os.getpid()}_{_COUNT[0]}"
    path = os.path.join(d, name + ".py")
    with open(path, "w") as f:
        f.write(src)
    importlib.invalidate_caches()
    mod = importlib.import_module(name)
    return mod


def unload(mod):
    name = mod.__name__
    sys.modules.pop(name, None)
    try:
        os.remove(os.path.join(scratch_pkg(), name + ".py"))
    except OSError:
        pass

"""Parser recipes (plain data) -> freshly built, identical parsers (DESIGN 3.4).

recipe = {"args": [[name, shape, has_default, default_input], ...],            # name may be dotted: 'g.a', 'g.h.b'
          "sub": {"a": [[name, shape, has_default, default], ...], "b": [...]} | None,   # one level of subcommands
          "env": bool}
"""
import copy

from hypothesis import strategies as st

from . import types as G

TOP_NAMES = ["x", "y", "items", "g.a", "g.b", "g.h.c", "k.null", "n1", "g.items", "g.h.keys"]
SUB_NAMES = ["o1", "o2", "s.p", "values", "s.get"]


def build(recipe, **parser_kw):
    from jsonargparse import ArgumentParser

    kw = dict(exit_on_error=False)
    if recipe.get("env"):
        kw.update(default_env=True, env_prefix="VF")
    kw.update(parser_kw)
    p = ArgumentParser(**kw)
    p.add_argument("--cfg", action="config")
    _add_args(p, recipe["args"])
    if recipe.get("sub"):
        sc = p.add_subcommands(required=True)
        for name, args in recipe["sub"].items():
            sp = ArgumentParser(exit_on_error=False)
            _add_args(sp, args)
            sc.add_subcommand(name, sp)
    return p


def _add_args(p, args):
    for name, shape, has_default, dflt in args:
        kw = {"type": G.to_type(shape)}
        if has_default:
            kw["default"] = _default_value(shape, dflt)
        p.add_argument("--" + name, **kw)


def _default_value(shape, dflt):
    if shape[0] == "cls":
        return copy.deepcopy(dflt)  # a dict with class_path
    return G.expected(shape, dflt)


def nest(flat):
    """{'g.a': 1, 'x': 2} -> {'g': {'a': 1}, 'x': 2}"""
    out = {}
    for k, v in flat.items():
        cur = out
        parts = k.split(".")
        for p in parts[:-1]:
            cur = cur.setdefault(p, {})
        cur[parts[-1]] = v
    return out


@G._memo
def recipes(depth=2, special=False, classes=True, sub=True, max_args=3, leaves=None):
    leaves = leaves or (G.SCALAR_LEAVES + G.REGISTERED_LEAVES)
    # registered types inside a Union are kept out: several of them accept almost any string (pathlib.Path, bytes as base64 ...),
    # so such Unions are ambiguous by construction; registered types on their own and inside containers stay in
    shape = G.shapes(depth, leaves=leaves).filter(lambda s: not (G.has_union(s) and G.kinds_in(s) & set(G.REGISTERED_LEAVES)) and not _overlapping_numeric_union(s))
    if classes:
        plain = shape
        cls = st.sampled_from([["cls", "Base"], ["opt", ["cls", "Base"]], ["list", ["cls", "Base"]], ["cls", "Holder"], ["dict", ["cls", "Base"]],
                               # class specs deeper inside containers
                               ["dict", ["list", ["cls", "Base"]]], ["list", ["list", ["cls", "Base"]]], ["tuple", ["cls", "Base"], ["int"]], ["list", ["opt", ["cls", "Base"]]]])
        shape = st.integers(0, 3).flatmap(lambda i: cls if i == 0 else plain)  # (one_of would flatten and drown the class shapes)

    def arg(names):
        def build_arg(draw):
            name = draw(names)
            sh = draw(shape)
            has_default = draw(st.booleans()) and not G.has_union(sh) and "cls" not in G.kinds_in(sh)
            dflt = draw(G.conforming(sh, for_default=True)) if has_default else None
            return [name, sh, has_default, dflt]

        return st.composite(lambda draw: build_arg(draw))()

    def uniq(args):
        seen, out = set(), []
        for a in args:
            # a name may not be both a leaf and a group ('g' and 'g.a' cannot happen with these pools)
            if a[0] not in seen:
                seen.add(a[0])
                out.append(a)
        return out

    top = st.lists(arg(st.sampled_from(TOP_NAMES)), min_size=1, max_size=max_args).map(uniq)
    subs = st.one_of(st.none(), st.none(), st.none() if not sub else st.fixed_dictionaries(
        {"a": st.lists(arg(st.sampled_from(SUB_NAMES)), min_size=1, max_size=2).map(uniq)},
        optional={"b": st.lists(arg(st.sampled_from(SUB_NAMES)), min_size=1, max_size=2).map(uniq)}))
    return st.builds(lambda a, s: {"args": a, "sub": s, "env": False}, top, subs)


def _value(draw, shape, has_default, dflt, special):
    """a conforming input; for a dict-typed argument with a default sometimes the default with one entry changed or added (a value that
    overlaps its default in part is what dump(skip_default=True) has to keep whole)"""
    if has_default and shape[0] in ("dict", "dictint") and isinstance(dflt, dict) and dflt and draw(st.integers(0, 2)) == 0:
        v = copy.deepcopy(dflt)
        key = draw(st.sampled_from(sorted(v, key=repr) + (["zk"] if shape[0] == "dict" else [7])))
        v[key] = draw(G.conforming(shape[1], special))
        return v
    return draw(G.conforming(shape, special))


def values_for(recipe, special=False):
    """strategy: flat {dotted name: conforming input} for a subset of the arguments (+ chosen subcommand and its values)"""
    def build(draw):
        vals = {}
        for name, shape, has_default, dflt in recipe["args"]:
            if draw(st.integers(0, 3)) > 0 or _needs_value(shape):
                vals[name] = _value(draw, shape, has_default, dflt, special)
        sub = None
        if recipe.get("sub"):
            sub = draw(st.sampled_from(sorted(recipe["sub"])))
            for name, shape, has_default, dflt in recipe["sub"][sub]:
                if draw(st.integers(0, 3)) > 0 or _needs_value(shape):
                    vals[sub + "." + name] = _value(draw, shape, has_default, dflt, special)
        return {"values": vals, "subcommand": sub}

    return st.composite(lambda draw: build(draw))()


def _overlapping_numeric_union(shape):
    """a Union with a restricted number type and another numeric member accepts some numbers through two members
    (PositiveInt accepts 1.0 and returns 1): which one wins depends on the spelling, an ambiguity of the hint itself"""
    subs = [x for x in shape[1:] if isinstance(x, list) and x and isinstance(x[0], str)]
    if shape[0] in ("dc", "td"):
        subs = [f[1] for f in shape[2]]
    if shape[0] == "union":
        num = [m[0] for m in shape[1:] if m[0] in ("int", "float", "posint", "nnfloat", "unit")]
        if len(num) >= 2 and set(num) & {"posint", "nnfloat", "unit"}:
            return True
        if {"dict", "dictint"} <= {m[0] for m in shape[1:]}:
            return True  # in a document the keys of an int-keyed dict are strings: it reads as the str-keyed member as well
        # Optional[...] members are unions as well
    return any(_overlapping_numeric_union(x) for x in subs)


def _needs_value(shape):
    """a dataclass-typed argument with a field without default makes that field a required argument"""
    return shape[0] == "dc" and any(not f[2] or _needs_value(f[1]) for f in shape[2])


def as_object(vals, sub):
    obj = nest(vals)
    if sub:
        obj["subcommand"] = sub
        obj.setdefault(sub, {})
    return obj


def all_shapes(recipe):
    out = {n: s for n, s, _h, _d in recipe["args"]}
    for sname, args in (recipe.get("sub") or {}).items():
        for n, s, _h, _d in args:
            out[sname + "." + n] = s
    return out

"""Argument *kinds* beyond `--name type` options (used by C01, C05, C10 as an extra family of parsers):
positionals (required, nargs='?', nargs='*' / '+'), options with nargs=N / '+' / '*', ActionYesNo flags (plain, nargs='?', custom
prefixes), Callable and Type[...] hints (values are import paths), str choices, a short alias, an option inside an argument group with a
dotted name, optional environment support.

recipe  = {"parts": {name: spec}, "env": bool}          spec = dict of the options that matter for that part (see PART_SPECS)
values  = {name: value}  in JSON form (what a config file would hold); a missing name = not given
Everything here is plain data so that cases shrink, replay and hash; `build` turns a recipe into a fresh parser.
"""
import json

from hypothesis import strategies as st

from . import types as G

FX = "vf.gen.fixtures."
ORDER = ["pos", "posq", "rest", "pair", "many", "flag", "fn", "ty", "cnt", "short", "grp.v", "grp.w", "dc", "mdls", "st"]
POSITIONALS = ("pos", "posq", "rest")
SCALARS = {"int": int, "str": str, "float": float, "color": None}


def _scalar_type(t):
    if t == "color":
        return G.Color
    return SCALARS[t]


@G._memo
def recipes():
    part = {
        "pos": st.fixed_dictionaries({"type": st.sampled_from(["int", "str", "color"])}),
        "posq": st.fixed_dictionaries({"type": st.sampled_from(["int", "color", "str"])}),
        "rest": st.fixed_dictionaries({"type": st.sampled_from(["str", "int"]), "nargs": st.sampled_from(["*", "+"])}),
        "pair": st.fixed_dictionaries({"type": st.sampled_from(["int", "str", "float"])}),
        "many": st.fixed_dictionaries({"type": st.sampled_from(["float", "int", "color"]), "nargs": st.sampled_from(["+", "*"]), "default": st.sampled_from([None, [], [1]])}),
        "flag": st.fixed_dictionaries({"default": st.booleans(), "style": st.sampled_from(["plain", "plain", "nargs?", "prefix"])}),
        "fn": st.fixed_dictionaries({"default": st.sampled_from([None, "fn_a"]), "optional": st.booleans()}),
        "ty": st.fixed_dictionaries({"default": st.sampled_from([None, "Base", "SubA"])}),
        "cnt": st.fixed_dictionaries({"default": st.sampled_from(["b", "1", "null"])}),
        "short": st.fixed_dictionaries({"type": st.sampled_from(["str", "int"])}),
        "grp.v": st.fixed_dictionaries({"type": st.sampled_from(["int", "str"])}),
        "grp.w": st.fixed_dictionaries({"default": st.booleans()}),
        # a dataclass-typed option given as ONE mapping: plain member, list member (also through an append key), subclass-typed member
        "dc": st.fixed_dictionaries({"opt_default": st.sampled_from(["SubA", "Base"])}),
        # two class-typed options, the name of the first a prefix of the second's, both with a default spec that has init_args
        "mdls": st.fixed_dictionaries({"first": st.sampled_from(["mdl", "mdl_ema"])}),
        "st": st.fixed_dictionaries({"action": st.sampled_from(["store_true", "store_false"])}),  # a plain argparse flag
    }
    return st.tuples(st.fixed_dictionaries({}, optional=part), st.booleans()).filter(lambda t: len(t[0]) >= 2).map(
        lambda t: {"parts": {n: t[0][n] for n in ORDER if n in t[0]}, "env": t[1]})


def build(recipe, **kw):
    from typing import Callable, List, Optional, Type

    from jsonargparse import ActionYesNo, ArgumentParser

    from . import fixtures as F

    args = dict(exit_on_error=False)
    if recipe.get("env"):
        args.update(default_env=True, env_prefix="VF")
    args.update(kw)
    p = ArgumentParser(**args)
    p.add_argument("--cfg", action="config")
    parts = recipe["parts"]
    grp = None
    for name in ORDER:
        if name not in parts:
            continue
        s = parts[name]
        if name == "pos":
            p.add_argument("pos", type=_scalar_type(s["type"]))
        elif name == "posq":
            p.add_argument("posq", type=_scalar_type(s["type"]), nargs="?")
        elif name == "rest":
            p.add_argument("rest", type=_scalar_type(s["type"]), nargs=s["nargs"])
        elif name == "pair":
            p.add_argument("--pair", type=_scalar_type(s["type"]), nargs=2)
        elif name == "many":
            d = s["default"]
            if d is not None and s["type"] == "color":
                d = [G.Color.red for _ in d]
            elif d is not None and s["type"] == "float":
                d = [float(x) for x in d]
            p.add_argument("--many", type=_scalar_type(s["type"]), nargs=s["nargs"], **({} if d is None else {"default": d}))
        elif name == "flag":
            if s["style"] == "plain":
                p.add_argument("--flag", action=ActionYesNo, default=s["default"])
            elif s["style"] == "nargs?":
                p.add_argument("--flag", action=ActionYesNo, nargs="?", default=s["default"])
            else:
                p.add_argument("--with-flag", action=ActionYesNo(yes_prefix="with-", no_prefix="without-"), default=s["default"])
        elif name == "fn":
            t = Callable[[int], int]
            p.add_argument("--fn", type=Optional[t] if s["optional"] else t, **({} if s["default"] is None else {"default": getattr(F, s["default"])}))
        elif name == "ty":
            p.add_argument("--ty", type=Type[F.Base], **({} if s["default"] is None else {"default": getattr(F, s["default"])}))
        elif name == "cnt":
            p.add_argument("--cnt", type=str, choices=["1", "b", "null", "c d"], default=s["default"])
        elif name == "short":
            p.add_argument("-s", "--short", type=_scalar_type(s["type"]), default=None)
        elif name == "dc":
            import dataclasses

            DC = dataclasses.make_dataclass("KindsDC", [
                ("n", int, 1), ("tags", List[str], dataclasses.field(default_factory=lambda: ["a"])),
                ("opt", F.Base, dataclasses.field(default_factory=lambda: ({"class_path": FX + "SubA", "init_args": {"q": "z"}} if s["opt_default"] == "SubA" else {"class_path": FX + "Base"})))])
            DC.__module__ = __name__
            globals()["KindsDC"] = DC
            p.add_argument("--dc", type=DC, default=DC())
        elif name == "st":
            p.add_argument("--st", action=s["action"])
        elif name == "mdls":
            for nm in (["mdl", "mdl_ema"] if s["first"] == "mdl" else ["mdl_ema", "mdl"]):
                p.add_argument("--" + nm, type=F.Base, default={"class_path": FX + "SubA", "init_args": {"q": "q-" + nm}})
        elif name in ("grp.v", "grp.w"):
            grp = grp or p.add_argument_group("Group of options")
            if name == "grp.v":
                grp.add_argument("--grp.v", type=_scalar_type(s["type"]), default=None)
            else:
                grp.add_argument("--grp.w", action=ActionYesNo, default=s["default"])
    return p


def dest(recipe, name):
    if name == "flag" and recipe["parts"]["flag"]["style"] == "prefix":
        return "with_flag"
    return name


TEXT = G.LOOKALIKE


def _text(positional=False):
    # as one command line word any text is a str; a positional may not look like an option and cannot be empty-looking for argparse
    base = st.sampled_from(TEXT)
    if positional:
        return base.filter(lambda s: not s.startswith("-") and s != "" and "\n" not in s)
    return base


def _scalar_value(t, positional=False):
    if t == "int":
        return st.integers(0, 9) if positional else st.integers(-5, 9)
    if t == "float":
        return st.sampled_from([0.0, 1.0, 2.5, -0.5, 1e3, 1e-7]) if not positional else st.sampled_from([0.0, 1.0, 2.5, 1e3])
    if t == "color":
        return st.sampled_from(["red", "green", "blue"])
    return _text(positional)


def values_for(recipe):
    parts = recipe["parts"]

    def build_values(draw):
        v = {}
        for name, s in parts.items():
            give = draw(st.integers(0, 3)) > 0
            if name == "pos":
                v[name] = draw(_scalar_value(s["type"], True))
            elif name == "posq" and give:
                v[name] = draw(_scalar_value(s["type"], True))
            elif name == "rest":
                # always given (possibly empty): a positional cannot have a default, so leaving it out of a config is "missing" while
                # an empty command line is "no values" - not the same setting
                v[name] = draw(st.lists(_scalar_value(s["type"], True), min_size=1 if s["nargs"] == "+" else 0, max_size=3))
            elif name == "pair" and give:
                v[name] = draw(st.lists(_scalar_value(s["type"]), min_size=2, max_size=2))
            elif name == "many" and give:
                v[name] = draw(st.lists(_scalar_value(s["type"]), min_size=1 if s["nargs"] == "+" else 0, max_size=3))
            elif name in ("flag", "grp.w") and give:
                v[name] = draw(st.booleans())
            elif name == "st" and give:
                v[name] = s["action"] == "store_true"  # (the command line can only switch the flag away from its default)
            elif name == "fn" and give:
                v[name] = draw(st.sampled_from([FX + "fn_a", FX + "fn_b"] + ([None] if s["optional"] else [])))
            elif name == "ty" and give:
                v[name] = draw(st.sampled_from([FX + "Base", FX + "SubA", FX + "SubB"]))
            elif name == "cnt" and give:
                v[name] = draw(st.sampled_from(["1", "b", "null", "c d"]))
            elif name in ("short", "grp.v") and give:
                v[name] = draw(_scalar_value(s["type"]))
            elif name == "dc" and give:
                m = {}
                if draw(st.booleans()):
                    m["n"] = draw(st.integers(0, 9))
                k = draw(st.sampled_from([None, "tags", "tags+"]))
                if k:
                    m[k] = draw(st.lists(st.sampled_from(["b", "c", "1e3"]), max_size=2))
                o = draw(st.sampled_from([None, {"class_path": FX + "SubB"}, {"class_path": FX + "SubA", "init_args": {"p": 7}}, {"init_args": {"p": 5}},
                                          {"class_path": FX + "SubB", "init_args": {"r": [1.5]}}, {"class_path": FX + "Base"}]))
                if o:
                    m["opt"] = o
                if m:
                    v[name] = m
            elif name == "mdls" and give:
                specs = [{"class_path": FX + "SubB"}, {"class_path": FX + "SubB", "init_args": {"r": [0.5]}}, {"class_path": FX + "SubA", "init_args": {"p": 4}},
                         {"init_args": {"q": "given"}}, {"class_path": FX + "Base"}]
                m = {}
                for nm in ("mdl", "mdl_ema"):
                    if draw(st.integers(0, 2)) > 0:
                        m[nm] = draw(st.sampled_from(specs))
                if m:
                    v[name] = m
        # a value for `rest` can only be reached on the command line when the optional positional before it is filled
        if "rest" in v and v["rest"] and "posq" in parts and "posq" not in v:
            v["posq"] = draw(_scalar_value(parts["posq"]["type"], True))
        return v

    return st.composite(lambda draw: build_values(draw))()


def raw(v):
    if isinstance(v, str):
        return v
    return json.dumps(v, ensure_ascii=False)


def expressible_on_argv(recipe, values):
    """every given value has a command line spelling that means the same as the config value"""
    parts = recipe["parts"]
    for name, v in values.items():
        t = parts[name].get("type")
        if name in ("pair", "many", "rest") and t == "str":
            if any(x == "" or x.startswith("-") for x in v):
                return False  # argparse takes a leading '-' for an option when it collects nargs
        if name in ("pair", "many", "rest") and t in ("int", "float"):
            if any(x < 0 for x in v):
                return False
        if name == "many" and v == []:
            pass
        if name == "fn" and v is None:
            return False  # None for an Optional[Callable]: 'null' on the command line - kept to the config channels
        if name in ("short", "grp.v") and t == "str" and isinstance(v, str) and (v.startswith("-") and False):
            return False
    return True


def argv_for(recipe, values, layout=0):
    """layout: 0 = positionals first, 1 = positionals last (only used when no given option could swallow them)"""
    parts = recipe["parts"]
    pos, opts = [], []
    swallow = False
    for name in ORDER:
        if name not in values:
            continue
        v, s = values[name], parts[name]
        if name in ("pos", "posq"):
            pos.append(raw(v))
        elif name == "rest":
            pos += [raw(x) for x in v]
        elif name in ("pair", "many"):
            opts += ["--" + name] + [raw(x) for x in v]
            swallow = swallow or name == "many"
        elif name == "flag":
            if s["style"] == "prefix":
                opts.append("--with-flag" if v else "--without-flag")
            elif s["style"] == "nargs?" and layout % 2 == 1:
                opts.append("--flag=" + ("true" if v else "no"))
            else:
                opts.append("--flag" if v else "--no_flag")
                swallow = swallow or s["style"] == "nargs?"
        elif name == "grp.w":
            opts.append("--grp.w" if v else "--no_grp.w")
        elif name == "st":
            opts.append("--st")
        elif name == "short":
            opts += ["-s", raw(v)] if layout // 2 % 2 == 0 and not raw(v).startswith("-") and raw(v) != "" else ["--short=" + raw(v)]
        elif name == "mdls":
            for nm, spec in v.items():
                opts.append(f"--{nm}={json.dumps(spec)}")
        else:
            opts.append(f"--{name}={raw(v)}")
    if layout % 2 == 1 and not swallow:
        return opts + pos
    return pos + opts


def object_for(recipe, values):
    out = {}
    for name, v in values.items():
        if name == "mdls":
            out.update(v)
            continue
        d = dest(recipe, name)
        cur = out
        ks = d.split(".")
        for k in ks[:-1]:
            cur = cur.setdefault(k, {})
        cur[ks[-1]] = v
    return out


def env_for(recipe, values):
    env = {}
    for name, v in values.items():
        if name == "mdls":
            for nm, spec in v.items():
                env["VF_" + nm.upper()] = json.dumps(spec)
            continue
        d = dest(recipe, name)
        env["VF_" + d.replace(".", "__").upper()] = raw(v) if not isinstance(v, (list, dict)) else json.dumps(v, ensure_ascii=False)
    return env


def expected(recipe, name, v):
    """the typed value a given JSON-form value stands for"""
    from . import fixtures as F

    s = recipe["parts"][name]
    t = s.get("type")

    def one(x):
        if t == "color":
            return G.Color[x]
        if t == "float":
            return float(x)
        return x

    if name in ("pos", "posq", "short", "grp.v"):
        return one(v)
    if name in ("rest", "pair", "many"):
        return [one(x) for x in v]
    if name in ("fn", "ty"):
        return None if v is None else getattr(F, v.rsplit(".", 1)[1])
    return v


NO_MODEL = ("dc", "mdls")  # parts whose result is only compared across channels


def given_ok(recipe, values, cfg):
    """-> list of (name, expected, got) for given values that did not arrive typed-equal"""
    bad = []
    for name, v in values.items():
        if name in NO_MODEL:
            continue
        want = expected(recipe, name, v)
        try:
            got = cfg[dest(recipe, name)]
        except Exception:  # noqa
            bad.append((name, want, "<missing>"))
            continue
        if G.diff(got, want, limit=1):
            bad.append((name, want, got))
    return bad

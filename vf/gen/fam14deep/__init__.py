"""A package that exposes, under the name ``Widget``, an object that is NOT vf.gen.fam14deep.sub.mod.Widget (C14: a class_path names
exactly one class, however similar names higher up in the package tree look)."""
from ..fam14 import LOG, Base


class _Shallow(Base):
    def __init__(self, a: int = 1, b: str = "b"):
        super().__init__(a=a, b=b)
        LOG.append(("_Shallow", type(self).__name__, dict(a=a, b=b)))


Widget = _Shallow

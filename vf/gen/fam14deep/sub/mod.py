from ...fam14 import LOG, Base


class Widget(Base):
    def __init__(self, w: int = 4, **kwargs):
        super().__init__(**kwargs)
        LOG.append(("Widget", type(self).__name__, dict(w=w, **kwargs)))
        self.w = w

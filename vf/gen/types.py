"""Type-hint grammar G (DESIGN 3.1/3.2): shapes, the Python type built from a shape, value generators, and the
implementation-independent oracles ``conforms`` / ``expected`` / ``typed_eq`` / ``diff``.

A *shape* is plain data (nested lists) so that cases can be written to replay files:
  ['str'] ['int'] ['float'] ['bool'] ['enum','Color'|'Flag'] ['lit'] ['posint'] ['nnfloat'] ['unit'] ['rstr']
  ['decimal'] ['complex'] ['uuid'] ['timedelta'] ['bytes'] ['range'] ['ppath']
  ['opt',T] ['union',T1..Tk] ['list',T] ['seq',T] ['dict',T] ['dictint',T] ['tuple',T1..Tk] ['tuplevar',T] ['set',leaf]
  ['dc', tag, [[field, T, has_default, default_input], ...]]
  ['td', tag, [[key, T, not_required, None], ...]]          TypedDict (total, keys marked NotRequired where not_required)
Input values are JSON-like Python data (what a config file would hold): lists for tuples and sets, member names for enums.
Nothing in the oracles looks at how jsonargparse sees a type.
"""
from __future__ import annotations

import dataclasses
import datetime
import decimal
import enum
import json
import math
import pathlib
import re
import uuid
from typing import Dict, List, Literal, Optional, Sequence, Set, Tuple, Union

from hypothesis import strategies as st


class Color(enum.Enum):
    red = 1
    green = 2
    blue = 3


class Flag(enum.Enum):  # member names that YAML readers take for something else
    on = "x"
    off = "y"
    null = "z"
    true = "t"
    n1e3 = "u"


ENUMS = {"Color": Color, "Flag": Flag}
LIT = ["a", 1, True, None, "null"]
LIT2 = [1, 0, "b"]  # no bool / float member: True, False, 1.0 and 0.0 are equal to members without being members
RSTR = r"^[a-z]{2,4}$"

SCALAR_LEAVES = ["str", "int", "float", "bool", "enum:Color", "enum:Flag", "lit", "lit2", "posint", "nnfloat", "unit", "rstr"]
REGISTERED_LEAVES = ["decimal", "complex", "uuid", "timedelta", "bytes", "range", "ppath"]
HASHABLE_LEAVES = ["str", "int", "bool", "enum:Color", "posint"]


def leaf_shape(name):
    return ["enum", name.split(":")[1]] if name.startswith("enum:") else [name]


# ------------------------------------------------------------------------------------------------- lookalike strings
LOOKALIKE = ['', ' ', 'a', 'abc', 'null', 'Null', 'NULL', '~', 'true', 'True', 'TRUE', 'false', 'False', 'yes', 'Yes', 'no', 'No', 'NO',
             'on', 'On', 'off', 'OFF', 'y', 'n', 'Y', 'N', '1', '-1', '+1', '0', '00', '007', '1.5', '1e3', '1E3', '1e-3', '1E+3', '1e+3',
             '-1e3', '+1e3', '1_0e3', '.5', '1.', '-.5', '1.e3', '.5e3', '.5e+3', '0x1F', '0o7', '0o17', '0b1', '0b101', '1_000', '1:30',
             '1:30:00', '-1:30', '1:30.5', '190:20:30', '2001-01-01', '2001-01-01 10:00:00', '2001-01-01T10:00:00Z', '2001-1-1',
             '.inf', '-.inf', '+.inf', '.Inf', '.INF', '.nan', '.NaN', '.NAN', 'inf', 'nan', 'Infinity', 'NaN', '-Infinity',
             '[1]', '[]', '[a, b]', '{a: 1}', '{}', '{a}', '{"a": 1}', 'a: b', 'a: 1', '- x', '-x', '- 1', '#c', 'a #c', 'a#c', "'q'", '"q"',
             "it's", 'say "hi"', '&a', '&a b', '*a', '!t', '!!str x', '!!python/object:os.system x', '%x', '@x', '`x', '|', '>', '|-', '?', '? a',
             '-', '--', '---', '...', ':', '::', 'a:', ':a', ',', '[', ']', '{', '}', ' lead', 'trail ', ' both ', 'a\nb', 'a\n', '\na', '\n',
             'a\n\nb', '\t', 'a\tb', '\ta', 'a\r\nb', 'a\\nb', '\\', 'é', '😀', 'ß', '中', '=', '<<', '<<: x', 'class_path', 'init_args',
             'None', 'e1', '1e', '1e3x', '0x', '0xZ', '1__0', '_1', '1_', '12e03', '6.0221409e+23', '-0', '-0.0', '0.0', '1,000', '1 000',
             '1/2', '2**3', '1+2j', 'true false', 'null null', '=1', '==', 'a=b', 'a.b', '.a', 'a.', '..', '.', '$x', '${x}', '${a.b}', 'x${y}']
YAML_SPECIAL_CHARS = ['\x85', ' ', ' ', '﻿', '\x7f', '\x80', '\x9f', '￾', '￿', '\x01', '\x1b', '\x08']


def _resolver_regexes():
    """regexes of the implicit-resolver tables of the stock SafeLoader (used only to *aim* the generator)"""
    import yaml

    seen, out = set(), []
    for lst in yaml.SafeLoader.yaml_implicit_resolvers.values():
        for _tag, rx in lst:
            if rx.pattern not in seen:
                seen.add(rx.pattern)
                out.append(rx)
    out.append(re.compile(r"^(?:[-+]?(?:[0-9][0-9_]*)\.[0-9_]*(?:[eE][-+]?[0-9]+)?|[-+]?(?:[0-9][0-9_]*)(?:[eE][-+]?[0-9]+)"
                          r"|\.[0-9_]+(?:[eE][-+][0-9]+)?|[-+]?[0-9][0-9_]*(?::[0-5]?[0-9])+\.[0-9_]*|[-+]?\.(?:inf|Inf|INF)|\.(?:nan|NaN|NAN))$"))
    return out


_STRAT_CACHE: dict = {}


def _memo(fn):
    """strategies are immutable: build each one once per process (building them dominates the run time otherwise)"""
    import functools

    @functools.wraps(fn)
    def wrapper(*args, **kw):
        key = (fn.__name__, json.dumps([args, sorted(kw.items())], sort_keys=True, default=repr))
        if key not in _STRAT_CACHE:
            _STRAT_CACHE[key] = fn(*args, **kw)
        return _STRAT_CACHE[key]

    return wrapper


@_memo
def text_strategy(special=False):
    """strings for str-typed positions.  special=True adds the stratum of characters PyYAML treats specially (F2)."""
    alphabet = st.characters(blacklist_categories=("Cs",), blacklist_characters="".join(YAML_SPECIAL_CHARS) + "\x00",
                             min_codepoint=1 if special else 32, max_codepoint=0x2FFF)
    plain = st.text(alphabet=st.characters(blacklist_categories=("Cs", "Cc"), blacklist_characters="".join(YAML_SPECIAL_CHARS),
                                           max_codepoint=0x2FFF), max_size=8)
    ascii_punct = st.text(alphabet=st.sampled_from(list("ab01 -+.:,#'\"[]{}&*!|>%@`?=~\\\n\t_eE")), max_size=7)
    rx = st.one_of(*[st.from_regex(r, fullmatch=True) for r in _resolver_regexes()]).filter(lambda s: len(s) < 40 and "\x00" not in s)
    edge = st.sampled_from(["", "", " ", "-", "0", "null", "~"])  # the empty string and friends get a weight of their own
    parts = [st.sampled_from(LOOKALIKE), st.sampled_from(LOOKALIKE), plain, ascii_punct, ascii_punct, rx, edge]
    if special:
        parts.append(st.builds(lambda a, c, b: a + c + b, st.sampled_from(["", "a", "x "]), st.sampled_from(YAML_SPECIAL_CHARS), st.sampled_from(["", "b"])))
        parts.append(st.text(alphabet=alphabet, max_size=6))
    return st.one_of(*parts)


def is_special_text(s):
    return isinstance(s, str) and any(c in s for c in YAML_SPECIAL_CHARS) or (isinstance(s, str) and re.search(r"[\x00-\x08\x0b\x0c\x0e-\x1f\x7f-\x9f]", s) is not None)


INT = st.one_of(st.integers(-5, 5), st.integers(-5, 5), st.integers(-(2**70), 2**70), st.sampled_from([2**31, 2**53 + 1, 2**63, -(2**63) - 1, 10**20, 10**400, -(10**400)]))
FLOAT = st.one_of(st.sampled_from([0.0, -0.0, 1.0, -1.0, 1e3, 1e-7, 1e16, 1e22, 1e23, 0.1, 1.5, -2.5, 5e-324, 1.7976931348623157e308, 123456789.123456789]),
                  st.floats(allow_nan=False, allow_infinity=False), st.integers(-3, 3))


# ------------------------------------------------------------------------------------------------- shapes
@_memo
def shapes(depth, leaves=None, containers=None, dataclass=True):
    leaves = leaves or SCALAR_LEAVES
    containers = containers or ["opt", "union", "list", "seq", "dict", "dictint", "tuple", "tuplevar", "set", "td"] + (["dc"] if dataclass else [])
    leaf = st.sampled_from(leaves).map(leaf_shape)
    if depth <= 0:
        return leaf
    sub = st.deferred(lambda: shapes(depth - 1, leaves, containers, dataclass))
    hashable = [h for h in HASHABLE_LEAVES if h in leaves] or ["int"]
    opts = {
        "opt": sub.map(lambda s: ["opt", s]),
        "union": st.lists(sub, min_size=2, max_size=4, unique_by=lambda s: json.dumps(s)).map(lambda ss: ["union", *ss]),
        "list": sub.map(lambda s: ["list", s]),
        "seq": sub.map(lambda s: ["seq", s]),
        "dict": sub.map(lambda s: ["dict", s]),
        "dictint": sub.map(lambda s: ["dictint", s]),
        "tuple": st.lists(sub, min_size=1, max_size=3).map(lambda ss: ["tuple", *ss]),
        "tuplevar": sub.map(lambda s: ["tuplevar", s]),
        "set": st.sampled_from(hashable).map(lambda k: ["set", leaf_shape(k)]),
        "dc": dc_shapes(st.deferred(lambda: shapes(max(depth - 2, 0), leaves, [c for c in containers if c != "dc"], False))),
        "td": td_shapes(sub),
    }
    return st.one_of(leaf, *[opts[c] for c in containers])


FIELD_NAMES = ["fa", "fb", "fc", "items", "null", "n1"]


def dc_shapes(sub):
    """dataclass shapes: 1-3 fields, required ones first; defaults are conforming input values"""

    def build(draw):
        names = draw(st.lists(st.sampled_from(FIELD_NAMES), min_size=1, max_size=3, unique=True))
        fields = []
        for n in names:
            t = draw(sub)
            if t[0] != "opt" and not has_union(t) and draw(st.integers(0, 3)) == 0:
                t = ["opt", t]  # Optional fields are common in practice: a null given for one whose default is not None must survive dumps
            has_default = draw(st.booleans()) and not has_union(t)  # a Union default would make the expected value order dependent
            dflt = draw(conforming(t, for_default=True)) if has_default else None
            if has_default and t[0] == "opt" and dflt is None and draw(st.booleans()):
                dflt = draw(conforming(t[1], for_default=True))
            fields.append([n, t, has_default, dflt])
        fields.sort(key=lambda f: f[2])  # required first (a python signature forces it)
        return ["dc", "D", fields]

    return st.composite(lambda draw: build(draw))()


def td_shapes(sub):
    """TypedDict shapes: 1-3 keys, each required or NotRequired"""
    return st.lists(st.tuples(st.sampled_from(FIELD_NAMES), sub, st.booleans()), min_size=1, max_size=3, unique_by=lambda t: t[0]).map(
        lambda fs: ["td", "T", [[n, t, opt, None] for n, t, opt in fs]])


_TYPE_CACHE: dict = {}
_RESTRICTED: dict = {}


def _restricted():
    if not _RESTRICTED:
        from jsonargparse.typing import ClosedUnitInterval, NonNegativeFloat, PositiveInt, restricted_string_type

        _RESTRICTED.update(posint=PositiveInt, nnfloat=NonNegativeFloat, unit=ClosedUnitInterval,
                           rstr=restricted_string_type("VfLower24", RSTR))
    return _RESTRICTED


# Equivalent spellings of one hint (DESIGN 3.1b).  The documentation lists List / Iterable / MutableSequence, Dict / Mapping /
# MutableMapping, Set / MutableSet, the PEP 585 builtins, PEP 604 unions and Annotated[T, ...] as supported; they denote the same
# set of values, so every oracle stays as it is and only the hint handed to the parser changes.  SPELL[0] == 0 is the canonical
# spelling; any other value picks, per node, one of the equivalent forms as a pure function of (SPELL, node).
SPELL = [0]


def set_spell(n):
    SPELL[0] = int(n or 0)


def _pick(key, n, salt=""):
    if not SPELL[0] or n <= 1:
        return 0
    import hashlib

    return int.from_bytes(hashlib.blake2b(f"{SPELL[0]}:{salt}:{key}".encode(), digest_size=4).digest(), "big") % n


def _spelled(k, key, args):
    """the hint for container kind k with already built argument types, in the spelling chosen for this node"""
    import collections.abc as abc
    import functools
    import operator
    import typing as ty

    if k in ("list",):
        forms = [List, list, ty.MutableSequence, abc.MutableSequence, ty.Iterable, abc.Iterable]
        return forms[_pick(key, len(forms))][args[0]]
    if k == "seq":
        forms = [Sequence, abc.Sequence]
        return forms[_pick(key, len(forms))][args[0]]
    if k in ("dict", "dictint"):
        forms = [Dict, dict, ty.Mapping, ty.MutableMapping, abc.Mapping, abc.MutableMapping]
        return forms[_pick(key, len(forms))][(str if k == "dict" else int), args[0]]
    if k == "tuple":
        return [Tuple, tuple][_pick(key, 2)][tuple(args)]
    if k == "tuplevar":
        return [Tuple, tuple][_pick(key, 2)][args[0], ...]
    if k == "set":
        forms = [Set, set, ty.MutableSet, abc.MutableSet]
        return forms[_pick(key, len(forms))][args[0]]
    if k == "union":
        if _pick(key, 2):
            return functools.reduce(operator.or_, args)
        return Union[tuple(args)]
    if k == "opt":
        i = _pick(key, 3)
        return Optional[args[0]] if i == 0 else (args[0] | None if i == 1 else Union[None, args[0]])
    raise ValueError(k)


def to_type(shape):
    key = json.dumps([SPELL[0], shape], sort_keys=True, default=repr)
    if key in _TYPE_CACHE:
        return _TYPE_CACHE[key]
    t = _to_type(shape, key)
    if shape[0] not in ("dc", "cls", "td") and _pick(key, 8, "ann") == 1:
        import typing as ty

        t = ty.Annotated[t, "vf-meta"]
    _TYPE_CACHE[key] = t
    return t


def _to_type(shape, key):
    k = shape[0]
    if k == "str":
        t = str
    elif k == "int":
        t = int
    elif k == "float":
        t = float
    elif k == "bool":
        t = bool
    elif k == "enum":
        t = ENUMS[shape[1]]
    elif k == "lit":
        t = Literal["a", 1, True, None, "null"]
    elif k == "lit2":
        t = Literal[1, 0, "b"]
    elif k in ("posint", "nnfloat", "unit", "rstr"):
        t = _restricted()[k]
    elif k == "decimal":
        t = decimal.Decimal
    elif k == "complex":
        t = complex
    elif k == "uuid":
        t = uuid.UUID
    elif k == "timedelta":
        t = datetime.timedelta
    elif k == "bytes":
        t = bytes
    elif k == "range":
        t = range
    elif k == "ppath":
        t = pathlib.Path
    elif k in ("opt", "union", "list", "seq", "dict", "dictint", "tuple", "tuplevar", "set"):
        t = _spelled(k, key, [to_type(x) for x in shape[1:]])
    elif k == "dc":
        t = make_dc(shape)
    elif k == "td":
        t = make_td(shape)
    elif k == "cls":
        from . import fixtures

        t = getattr(fixtures, shape[1])
    else:
        raise ValueError(shape)
    return t


_DC_COUNT = [0]


def make_dc(shape):
    fields = []
    for name, t, has_default, dflt in shape[2]:
        ty = to_type(t)
        if not has_default:
            fields.append((name, ty))
        else:
            val = expected(t, dflt)
            if isinstance(val, (list, dict, set)) or dataclasses.is_dataclass(val):
                fields.append((name, ty, dataclasses.field(default_factory=(lambda v=val: _copy(v)))))
            else:
                fields.append((name, ty, dataclasses.field(default=val)))
    _DC_COUNT[0] += 1
    cls = dataclasses.make_dataclass(f"VfDC{_DC_COUNT[0]}", fields)
    cls.__module__ = __name__
    globals()[cls.__name__] = cls
    return cls


def make_td(shape):
    import typing as ty

    _DC_COUNT[0] += 1
    return ty.TypedDict(f"VfTD{_DC_COUNT[0]}", {name: (ty.NotRequired[to_type(t)] if opt else to_type(t)) for name, t, opt, _d in shape[2]})


def _copy(v):
    import copy

    return copy.deepcopy(v)


# ------------------------------------------------------------------------------------------------- values
DICT_KEYS = ["a", "b", "k1", "null", "1", "true", "x.y", "items", "1e3", "", " ", "on"]


@_memo
def conforming(shape, special=False, for_default=False):
    """strategy of JSON-like input values that the type must accept (canonical kinds only, no coercions relied upon
    other than the documented int->float, list->tuple/set and name->Enum)"""
    k = shape[0]
    rec = lambda s: conforming(s, special, for_default)  # noqa: E731
    if k == "str":
        return text_strategy(special) if not for_default else st.sampled_from(["a", "", "null", "1e3", "x y"])
    if k == "int":
        return INT
    if k == "float":
        return st.one_of(FLOAT, FLOAT, st.sampled_from([float("inf"), float("-inf")])) if special else FLOAT
    if k == "bool":
        return st.booleans()
    if k == "enum":
        return st.sampled_from(list(ENUMS[shape[1]].__members__))
    if k == "lit":
        return st.sampled_from(LIT)
    if k == "lit2":
        return st.sampled_from(LIT2)
    if k == "posint":
        return st.one_of(st.integers(1, 5), st.integers(1, 2**40))
    if k == "nnfloat":
        return st.one_of(st.sampled_from([0.0, 0.5, 1.0, 1e3, 3]), st.floats(min_value=0, allow_nan=False, allow_infinity=False))
    if k == "unit":
        return st.one_of(st.sampled_from([0.0, 1.0, 0.5, 0, 1]), st.floats(min_value=0, max_value=1))
    if k == "rstr":
        return st.from_regex(r"[a-z]{2,4}", fullmatch=True)
    if k == "decimal":
        return st.sampled_from([0, 1, -3, 0.5, 1.25, 1e3, 2**40])
    if k == "complex":
        return st.sampled_from(["(1+2j)", "1j", "(3+0j)", "(-1.5-2.5j)", "0j"])
    if k == "uuid":
        return st.uuids().map(str)
    if k == "timedelta":
        return st.sampled_from(["1:00:00", "0:00:01", "1 day, 0:00:00", "-1 day, 23:59:59", "0:00:00.500000", "3 days, 4:05:06.000007",
                                "36:00:00", "24:00:00", "47:59:59", "100:30:00"])
    if k == "bytes":
        return st.binary(max_size=6).map(lambda b: __import__("base64").b64encode(b).decode())
    if k == "range":
        return st.sampled_from(["range(5)", "range(1, 5)", "range(0, 10, 2)", "range(5, 0, -1)", "range(0)"])
    if k == "ppath":
        return st.sampled_from(["a", "a/b", "/x/y", ".", "dir/file.txt", "1e3", "x y"])
    if k == "opt":
        return st.one_of(st.none(), rec(shape[1]), rec(shape[1]))
    if k == "union":
        return st.one_of(*[rec(x) for x in shape[1:]])
    if k in ("list", "seq", "tuplevar"):
        return st.lists(rec(shape[1]), max_size=3)
    if k == "dict":
        return st.dictionaries(st.sampled_from(DICT_KEYS), rec(shape[1]), max_size=3)
    if k == "dictint":
        return st.dictionaries(st.integers(-3, 3), rec(shape[1]), max_size=3)
    if k == "tuple":
        return st.tuples(*[rec(x) for x in shape[1:]]).map(list)
    if k == "set":
        return st.lists(rec(shape[1]), max_size=3, unique_by=lambda v: (type(v).__name__, v) if not isinstance(v, bool) else ("int", int(v))).filter(_set_safe)
    if k == "cls":
        return class_specs(shape[1], special)
    if k == "td":
        return st.fixed_dictionaries({n: rec(t) for n, t, opt, _d in shape[2] if not opt}, optional={n: rec(t) for n, t, opt, _d in shape[2] if opt})
    if k == "dc":
        def build(draw):
            out = {}
            for name, t, has_default, _d in shape[2]:
                if not has_default:
                    out[name] = draw(rec(t).filter(lambda x: x is not None and x != "null"))  # a required field needs a non-null value (C06); the str 'null' under a None-admitting Literal is F23's subject
                elif draw(st.booleans()):
                    out[name] = draw(rec(t))
                    if t[0] == "opt" and _d is not None and draw(st.booleans()):
                        out[name] = None  # null over a default that is not None
            return out

        return st.composite(lambda draw: build(draw))()
    raise ValueError(shape)


FX = "vf.gen.fixtures."


@_memo
def class_specs(base, special=False):
    """valid class_path/init_args specs (explicit notation, full import path) for the fixture families"""
    txt = text_strategy(special)
    suba = st.fixed_dictionaries({}, optional={"p": st.integers(-3, 3), "q": txt}).map(lambda ia: {"class_path": FX + "SubA", "init_args": ia})
    subb = st.fixed_dictionaries({}, optional={"r": st.one_of(st.none(), st.lists(st.sampled_from([0.5, 1, -2.0, 1e3]), max_size=2)),
                                               "f": st.sampled_from(list(Flag.__members__)),
                                               "t": st.tuples(st.integers(-2, 2), txt).map(list)}).map(lambda ia: {"class_path": FX + "SubB", "init_args": ia})
    subreq = st.fixed_dictionaries({"need": txt}, optional={"c": st.sampled_from(list(Color.__members__))}).map(
        lambda ia: {"class_path": FX + "SubReq", "init_args": ia})
    basec = st.fixed_dictionaries({}, optional={"p": st.integers(-3, 3)}).map(lambda ia: {"class_path": FX + "Base", "init_args": ia})
    anybase = st.one_of(suba, subb, subreq, basec)
    if base == "Base":
        return anybase
    if base == "Holder":
        return st.fixed_dictionaries({"inner": anybase}, optional={"items": st.one_of(st.none(), st.dictionaries(st.sampled_from(["a", "items", "1"]), st.integers(0, 3), max_size=2))}).map(
            lambda ia: {"class_path": FX + "Holder", "init_args": ia})
    raise ValueError(base)


def _set_safe(vs):
    # 1 and True (or 0 and False) collapse inside a python set: not expressible, keep them out
    return len({(int(v) if isinstance(v, bool) else v) for v in vs if isinstance(v, (int, bool))}) == len([v for v in vs if isinstance(v, (int, bool))])


class Ambiguous(Exception):
    pass


def expected(shape, v):
    """the Python value the parser must produce for the canonical input ``v`` (Ambiguous for unions: first match wins)"""
    from jsonargparse import Namespace

    k = shape[0]
    if k in ("str", "bool", "lit", "lit2", "rstr"):
        return v
    if k in ("int", "posint"):
        return v
    if k in ("float", "nnfloat", "unit"):
        return float(v)
    if k == "enum":
        return ENUMS[shape[1]][v]
    if k == "decimal":
        return decimal.Decimal(v)
    if k == "complex":
        return complex(v)
    if k == "uuid":
        return uuid.UUID(v)
    if k == "timedelta":
        return _parse_timedelta(v)
    if k == "bytes":
        return __import__("base64").b64decode(v)
    if k == "range":
        return eval(v, {"range": range})  # noqa: S307  (fixed corpus above)
    if k == "ppath":
        return pathlib.Path(v)
    if k == "opt":
        return None if v is None else expected(shape[1], v)
    if k == "union":
        raise Ambiguous()
    if k in ("list", "seq"):
        return [expected(shape[1], x) for x in v]
    if k == "tuplevar":
        return tuple(expected(shape[1], x) for x in v)
    if k == "dict":
        return {a: expected(shape[1], b) for a, b in v.items()}
    if k == "dictint":
        return {int(a): expected(shape[1], b) for a, b in v.items()}
    if k == "tuple":
        return tuple(expected(t, x) for t, x in zip(shape[1:], v))
    if k == "set":
        return {expected(shape[1], x) for x in v}
    if k == "td":
        types = {f[0]: f[1] for f in shape[2]}
        return {a: expected(types[a], b) for a, b in v.items()}
    if k == "dc":
        ns = Namespace()
        for name, t, has_default, dflt in shape[2]:
            if name in v:
                setattr(ns, name, expected(t, v[name]))
            elif has_default:
                setattr(ns, name, expected(t, dflt))
        return ns
    raise ValueError(shape)


def _parse_timedelta(s):
    m = re.fullmatch(r"(?:(-?\d+) days?, )?(\d+):(\d\d):(\d\d)(?:\.(\d{6}))?", s)
    assert m, s
    d, h, mi, se, us = m.groups()
    return datetime.timedelta(days=int(d or 0), hours=int(h), minutes=int(mi), seconds=int(se), microseconds=int(us or 0))


def has_union(shape):
    return shape[0] == "union" or any(isinstance(x, list) and x and isinstance(x[0], str) and has_union(x) for x in shape[1:] if isinstance(x, list)) \
        or (shape[0] in ("dc", "td") and any(has_union(f[1]) for f in shape[2]))


def conforms(shape, v):
    """structural induction with exact type checks (bool is not int); independent of the implementation"""
    from jsonargparse import Namespace

    k = shape[0]
    if k in ("str",):
        return type(v) is str
    if k == "int":
        return type(v) is int
    if k == "float":
        return type(v) is float
    if k == "bool":
        return type(v) is bool
    if k == "enum":
        return type(v) is ENUMS[shape[1]]
    if k == "lit":
        return any(v == x and type(v) is type(x) for x in LIT)
    if k == "lit2":
        return any(v == x and type(v) is type(x) for x in LIT2)
    if k == "posint":
        return isinstance(v, int) and type(v) is not bool and v > 0
    if k == "nnfloat":
        return isinstance(v, float) and v >= 0
    if k == "unit":
        return isinstance(v, float) and 0 <= v <= 1
    if k == "rstr":
        return isinstance(v, str) and re.match(RSTR, v) is not None
    if k == "decimal":
        return type(v) is decimal.Decimal
    if k == "complex":
        return type(v) is complex
    if k == "uuid":
        return type(v) is uuid.UUID
    if k == "timedelta":
        return type(v) is datetime.timedelta
    if k == "bytes":
        return type(v) is bytes
    if k == "range":
        return type(v) is range
    if k == "ppath":
        return isinstance(v, pathlib.Path)
    if k == "opt":
        return v is None or conforms(shape[1], v)
    if k == "union":
        return any(conforms(x, v) for x in shape[1:])
    if k in ("list", "seq"):
        return type(v) is list and all(conforms(shape[1], x) for x in v)
    if k == "tuplevar":
        return type(v) is tuple and all(conforms(shape[1], x) for x in v)
    if k == "dict":
        return type(v) is dict and all(type(a) is str and conforms(shape[1], b) for a, b in v.items())
    if k == "dictint":
        return type(v) is dict and all(type(a) is int and conforms(shape[1], b) for a, b in v.items())
    if k == "tuple":
        return type(v) is tuple and len(v) == len(shape) - 1 and all(conforms(t, x) for t, x in zip(shape[1:], v))
    if k == "set":
        return type(v) is set and all(conforms(shape[1], x) for x in v)
    if k == "cls":
        return type(v) is Namespace and isinstance(v.get("class_path"), str) and (v.get("init_args") is None or type(v.get("init_args")) is Namespace)
    if k == "td":
        names = {f[0]: f for f in shape[2]}
        return (type(v) is dict and set(v) <= set(names) and all(f[2] or f[0] in v for f in shape[2])
                and all(conforms(names[a][1], b) for a, b in v.items()))
    if k == "dc":
        if type(v) is not Namespace:
            return False
        names = {f[0] for f in shape[2]}
        got = set(v.keys()) if False else {kk.lstrip("​") for kk in vars(v)}
        if not got <= names:
            return False
        for name, t, has_default, _d in shape[2]:
            if name in got:
                x = getattr(v, name) if not hasattr(type(v), name) else v[name]
                if x is None and not has_default:
                    continue
                if x is not None and not conforms(t, x):
                    return False
        return True
    raise ValueError(shape)


# ------------------------------------------------------------------------------------------------- near misses
@_memo
def near_miss(shape):
    """strategy of (input, where/what) with a conforming value broken at exactly one position by an unambiguous break
    (no documented coercion repairs it), or None when the shape offers no such position"""
    k = shape[0]
    wrong = {
        "int": ["abc", 1.5, True, [1], {"a": 1}, "1.5", "", "1x"],
        "posint": ["abc", 1.5, True, 0, -1, [1]],
        "float": ["abc", True, [1.0], {"a": 1}, "1..5", ""],
        "nnfloat": ["abc", True, -0.5, -1, [1.0]],
        "unit": ["abc", True, 1.5, -0.5, 2],
        "bool": ["abc", 2, 1.5, [True], "maybe", 0],
        "str": [1, 1.5, True, [1], {"a": 1}],
        "enum": ["purple", 1, 7, "RED", True, ["red"]],
        "lit": ["b", 2, False, 1.5, ["a"], "None"],
        "lit2": [True, False, 1.0, 0.0, 2, "c", [1], True, 1.0],
        "rstr": ["A", "abcde", "a1", "", 5, "ab cd"],
    }
    if k in wrong:
        return st.sampled_from(wrong[k]).map(lambda w: (w, f"{k}<-{w!r}"))
    if k == "opt":
        inner = near_miss(shape[1])
        if inner is None:
            return None
        # None is accepted here, so a break must stay non-None and must not be accepted by the Optional rule
        return inner.filter(lambda p: p[0] is not None)
    if k == "union":
        # broken for every member at once: only simple cases (all members scalar kinds with a common wrong value)
        cands = [[1, 2], {"zz": {"zz": 1}}]
        ok = [c for c in cands if not _maybe_accepts(shape, c)]
        return st.sampled_from(ok).map(lambda w: (w, f"union<-{w!r}")) if ok else None
    if k in ("list", "seq", "tuplevar", "set"):
        outer = [5, "abc", {"a": 1}] if k != "set" else [5, {"a": 1}]
        outer = [o for o in outer if not (k in ("list", "seq") and False)]
        parts = [st.sampled_from(outer).map(lambda w: (w, f"{k}<-{w!r}"))]
        inner = near_miss(shape[1])
        if inner is not None:
            good = conforming(shape[1])
            parts.append(st.tuples(st.lists(good, max_size=2), inner, st.lists(good, max_size=1)).map(
                lambda t: (t[0] + [t[1][0]] + t[2], f"{k}[{len(t[0])}]:{t[1][1]}")).filter(lambda p: k != "set" or _hashable_list(p[0])))
        return st.one_of(*parts)
    if k in ("dict", "dictint"):
        parts = [st.sampled_from([5, "abc", [1, 2]]).map(lambda w: (w, f"{k}<-{w!r}"))]
        inner = near_miss(shape[1])
        keys = st.sampled_from(["a", "b"]) if k == "dict" else st.integers(0, 3)
        if inner is not None:
            parts.append(st.tuples(st.dictionaries(keys, conforming(shape[1]), max_size=2), keys, inner).map(
                lambda t: ({**t[0], t[1]: t[2][0]}, f"{k}[{t[1]!r}]:{t[2][1]}")))
        if k == "dictint":
            parts.append(st.tuples(conforming(shape[1])).map(lambda t: ({"notint": t[0]}, "dictint key<-'notint'")))
        return st.one_of(*parts)
    if k == "tuple":
        n = len(shape) - 1
        good = st.tuples(*[conforming(x) for x in shape[1:]]).map(list)
        parts = [good.flatmap(lambda g: st.sampled_from([g[:-1], g + g[-1:]]).map(lambda w: (w, f"tuple arity {len(w)}!={n}"))),
                 st.sampled_from([5, {"a": 1}]).map(lambda w: (w, f"tuple<-{w!r}"))]
        for i in range(n):
            inner = near_miss(shape[1 + i])
            if inner is not None:
                parts.append(st.tuples(good, inner).map(lambda t, i=i: (t[0][:i] + [t[1][0]] + t[0][i + 1:], f"tuple[{i}]:{t[1][1]}")))
        return st.one_of(*parts)
    if k == "td":
        parts = [st.sampled_from([5, "abc", [1]]).map(lambda w: (w, f"typeddict<-{w!r}"))]
        good = conforming(shape)
        parts.append(good.map(lambda g: ({**g, "zq9": 1}, "typeddict unknown key zq9")))
        req = [f[0] for f in shape[2] if not f[2]]
        if req:
            parts.append(st.tuples(good, st.sampled_from(req)).map(lambda t: ({a: b for a, b in t[0].items() if a != t[1]}, f"typeddict without required key {t[1]}")))
        for name, t, _opt, _d in shape[2]:
            inner = near_miss(t)
            if inner is not None:
                parts.append(st.tuples(good, inner).map(lambda tt, name=name: ({**tt[0], name: tt[1][0]}, f"td.{name}:{tt[1][1]}")))
        return st.one_of(*parts)
    if k == "dc":
        parts = [st.sampled_from([5, "abc", [1]]).map(lambda w: (w, f"dataclass<-{w!r}"))]
        good = conforming(shape)
        parts.append(good.map(lambda g: ({**g, "zq9": 1}, "dataclass unknown field zq9")))
        for name, t, has_default, _d in shape[2]:
            inner = near_miss(t)
            if inner is not None:
                parts.append(st.tuples(good, inner).map(lambda tt, name=name: ({**tt[0], name: tt[1][0]}, f"dc.{name}:{tt[1][1]}")))
        return st.one_of(*parts)
    return None


def _hashable_list(vs):
    try:
        set(map(lambda v: json.dumps(v, sort_keys=True, default=repr), vs))
        return all(not isinstance(v, (list, dict)) for v in vs)
    except Exception:
        return False


def _maybe_accepts(shape, v):
    """very conservative: could some member of the union accept a list / a dict at all?"""
    k = shape[0]
    if k == "union":
        return any(_maybe_accepts(x, v) for x in shape[1:])
    if k == "opt":
        return _maybe_accepts(shape[1], v)
    if isinstance(v, list):
        return k in ("list", "seq", "tuple", "tuplevar", "set")
    if isinstance(v, dict):
        return k in ("dict", "dictint", "dc", "td")
    return True


# ------------------------------------------------------------------------------------------------- typed equality
def typed_eq(a, b):
    return not diff(a, b, limit=1)


def diff(a, b, path="", limit=20):
    """list of (path, a_leaf, b_leaf) for every differing leaf; same type at every node, same key order for mappings"""
    from jsonargparse import Namespace

    out = []

    def base(v):
        # restricted / extended scalar types are subclasses of their base type: an instance and the plain base value are the same value
        for t in (bool, int, float, str):
            if isinstance(v, t):
                return t
        return type(v)

    def rec(a, b, path):
        if len(out) >= limit:
            return
        if base(a) is not base(b):
            out.append((path, a, b))
            return
        if isinstance(a, Namespace):
            rec({k.lstrip("​"): v for k, v in vars(a).items()}, {k.lstrip("​"): v for k, v in vars(b).items()}, path)
        elif isinstance(a, dict):
            if list(a.keys()) != list(b.keys()) or any(type(x) is not type(y) for x, y in zip(a, b)):
                if set(map(repr, a.keys())) == set(map(repr, b.keys())):
                    out.append((path + "<key order>", list(a.keys()), list(b.keys())))
                else:
                    out.append((path + "<keys>", list(a.keys()), list(b.keys())))
                return
            for k in a:
                rec(a[k], b[k], f"{path}.{k}" if path else str(k))
        elif isinstance(a, (list, tuple)):
            if len(a) != len(b):
                out.append((path + "<len>", a, b))
                return
            for i, (x, y) in enumerate(zip(a, b)):
                rec(x, y, f"{path}[{i}]")
        elif isinstance(a, (set, frozenset)):
            if a != b or sorted(map(lambda v: (base(v).__name__, repr(v)), a)) != sorted(map(lambda v: (base(v).__name__, repr(v)), b)):
                out.append((path, a, b))
        elif isinstance(a, float):
            if not (a == b or (math.isnan(a) and math.isnan(b))):
                out.append((path, a, b))
        elif hasattr(a, "relative") and hasattr(a, "absolute"):  # jsonargparse Path: no __eq__, compare what the user sees
            if (str(a.relative), str(a.absolute)) != (str(b.relative), str(b.absolute)):
                out.append((path, a, b))
        elif a != b:
            out.append((path, a, b))

    rec(a, b, path)
    return out


def _leaf_positions(shape, path=()):
    k = shape[0]
    if k in ("dc", "td"):
        for i, f in enumerate(shape[2]):
            if k == "td" or not f[2]:  # a field default would no longer fit the replaced type
                yield from _leaf_positions(f[1], path + (2, i, 1))
        return
    subs = [(i, x) for i, x in enumerate(shape) if i > 0 and isinstance(x, list) and x and isinstance(x[0], str)]
    if not subs:
        yield path
    for i, x in subs:
        yield from _leaf_positions(x, path + (i,))


def _replace_at(shape, path, new):
    if not path:
        return new
    out = list(shape)
    out[path[0]] = _replace_at(shape[path[0]], path[1:], new)
    return out


def _get_at(shape, path):
    for p in path:
        shape = shape[p]
    return shape


def mutations_of(shape):
    """strategy of sibling shapes: the same shape with one to three leaf types replaced by other scalar leaves"""
    pos = list(_leaf_positions(shape))
    if not pos:
        return st.just(["int"])

    def build(draw):
        out = shape
        for p in draw(st.lists(st.sampled_from(pos), min_size=1, max_size=3, unique=True)):
            old = _get_at(shape, p)
            new = draw(st.sampled_from(["str", "int", "float", "float", "bool", "enum:Color", "posint"]).map(leaf_shape).filter(lambda n: n != old))
            out = _replace_at(out, p, new)
        return out

    return st.composite(lambda draw: build(draw))()


def depth_of(shape):
    subs = [x for x in shape[1:] if isinstance(x, list) and x and isinstance(x[0], str)]
    if shape[0] in ("dc", "td"):
        subs = [f[1] for f in shape[2]]
    return 1 + max([depth_of(s) for s in subs], default=0)


def kinds_in(shape):
    out = {shape[0]}
    subs = [x for x in shape[1:] if isinstance(x, list) and x and isinstance(x[0], str)]
    if shape[0] in ("dc", "td"):
        subs = [f[1] for f in shape[2]]
    for s in subs:
        out |= kinds_in(s)
    return out


def to_jsonable(v):
    """render a canonical input value as JSON text material (inputs are JSON-like already; dictint keys become strings)"""
    if isinstance(v, dict):
        return {str(k) if not isinstance(k, str) else k: to_jsonable(x) for k, x in v.items()}
    if isinstance(v, list):
        return [to_jsonable(x) for x in v]
    return v

"""Fixed class families used as subclass-typed arguments (importable by path: vf.gen.fixtures.<Name>)."""
from typing import Dict, List, Optional, Tuple

from .types import Color, Flag

CALLS = []  # (class name, kwargs) appended by every constructor: the observation point for "constructed once with ..."


class Base:
    def __init__(self, p: int = 1):
        CALLS.append((type(self).__name__, {"p": p}))
        self.p = p


class SubA(Base):
    def __init__(self, p: int = 2, q: str = "a", **kwargs):
        super().__init__(p=p)
        CALLS.append(("SubA", {"p": p, "q": q, **kwargs}))
        self.q = q
        self.extra = kwargs


class SubB(Base):
    def __init__(self, r: Optional[List[float]] = None, f: Flag = Flag.on, t: Tuple[int, str] = (1, "1e3")):
        super().__init__()
        CALLS.append(("SubB", {"r": r, "f": f, "t": t}))
        self.r, self.f, self.t = r, f, t


class SubReq(Base):
    def __init__(self, need: str, c: Color = Color.red):
        super().__init__()
        CALLS.append(("SubReq", {"need": need, "c": c}))
        self.need, self.c = need, c


class Holder:
    def __init__(self, inner: Base, items: Optional[Dict[str, int]] = None):
        CALLS.append(("Holder", {"inner": inner, "items": items}))
        self.inner, self.items = inner, items


class Unrelated:
    def __init__(self, u: int = 0):
        self.u = u


# --- components for the link checks (C15) -----------------------------------------------------------------------------
class LGrp:
    def __init__(self, u: int = 1, v: int = 2, w: int = 0):
        self.u, self.v, self.w = u, v, w


class LSub:
    def __init__(self, n: int = 0):
        self.n = n


class LSub2(LSub):
    def __init__(self, n: int = 0, m: str = "m"):
        super().__init__(n)
        self.m = m


class LSub3(LSub):
    """lacks the linked parameter n: a link to it is documented as ignored for this class"""

    def __init__(self, k: int = 5):
        super().__init__()
        self.k = k


class Loose(Base):
    """accepts arbitrary extra keyword arguments (the documented use of dict_kwargs)"""

    def __init__(self, p: int = 1, **extra):
        super().__init__(p)
        self.extra = extra


class LEnc:
    """source of a link whose value may be None (C15)"""

    def __init__(self, width: Optional[int] = None, depth: int = 2):
        self.width, self.depth = width, depth


# --- plain functions for Callable-typed arguments (vf/gen/kinds.py) -------------------------------------------------------
def fn_a(x: int) -> int:
    return x


def fn_b(x: int) -> int:
    return x + 1

"""./check <ID> <quick|thorough>  |  ./check <ID> --replay FILE

Exit codes: 0 property held on everything explored (KNOWN-FINDING lines possible); 1 + "VIOLATION property=<ID> replay=<path>";
2 harness error (never reported as a violation).
"""
from __future__ import annotations

import importlib
import json
import os
import subprocess
import sys
import tempfile
import time
import traceback
from collections import Counter
from concurrent.futures import ThreadPoolExecutor

from .core import REPO, ROOT, Ctx, HarnessError, dec, derive_seed, enc, load_known, stable_hash

NPROC = min(16, os.cpu_count() or 1)


def load_check(prop):
    mod = importlib.import_module(f"vf.checks.{prop.lower()}")
    assert mod.ID == prop
    return mod


def assert_tree():
    import jsonargparse

    f = os.path.realpath(jsonargparse.__file__)
    if not f.startswith(os.path.realpath(REPO) + os.sep):
        raise HarnessError(f"jsonargparse imported from {f}, expected under {REPO}")


def case_body(mod, ctx, case, raise_on_fail=True):
    ctx.begin(case)
    mod.run_case(ctx, case)
    return ctx.end(raise_on_fail=raise_on_fail)


# ------------------------------------------------------------------------------------------------ shard process
def shard_main(argv):
    prop, tier, idx, seed, spec_json, out = argv
    idx, seed = int(idx), int(seed)
    spec = json.loads(spec_json)
    res = {"shard": idx, "spec": spec}
    try:
        if spec.get("kind") == "atheris":
            # coverage feedback needs the package instrumented at import time, i.e. before anything else imports it
            try:
                import atheris

                with atheris.instrument_imports(include=["jsonargparse"]):
                    import jsonargparse  # noqa: F401
            except ImportError as ex:  # not installed (setup_cmd could not): the shard falls back to plain generated search and says so
                spec = dict(spec, kind="gen", note=f"atheris not importable ({ex}); plain Hypothesis search instead")
                res["spec"] = spec
        assert_tree()
        mod = load_check(prop)
        ctx = Ctx(prop, tier, derive_seed(seed, prop, idx), idx)
        ctx.base_seed = seed
        if spec.get("kind") == "replays":
            run_replays(mod, ctx, res)
        elif spec.get("kind") == "atheris":
            ctx.result_file = out
            ctx.res_base = res
            mod.run_shard(spec, ctx)  # does not return: libFuzzer exits the process; results are flushed from inside
        else:
            mod.run_shard(spec, ctx)
        res.update(ctx.result())
    except HarnessError as ex:
        res["harness_error"] = f"{ex}"
    except BaseException as ex:  # noqa
        tb = "".join(traceback.format_exception(ex))
        res["harness_error"] = f"unexpected exception in harness: {type(ex).__name__}: {str(ex)[:300]} || " + tb[-1500:]
    with open(out, "w") as f:
        json.dump(res, f)
    sys.stdout.flush()
    try:
        from .gen import programs

        programs.cleanup()  # atexit does not run below: remove the scratch package of generated source files here
    except Exception:  # noqa
        pass
    os._exit(0)  # no lingering threads / atexit of the code under test


def run_replays(mod, ctx, res):
    """Seconds-long replay tier: known findings (must be re-observed to be announced), fixed findings and committed
    regression replays (must pass)."""
    notes, announce = [], []
    path = os.path.join(ROOT, "known_findings.json")
    entries = [e for e in json.load(open(path))["findings"] if e["property"] == mod.ID] if os.path.exists(path) else []
    for e in entries:
        if "replay" not in e:
            continue
        case = dec(e["replay"])
        before = ctx.known_hits[e["signature"]]
        ok = case_body(mod, ctx, case, raise_on_fail=False)
        if e["status"] == "known":
            if ctx.known_hits[e["signature"]] > before:
                announce.append(e["signature"])
            else:
                notes.append(f"NOTE: known finding {e['signature']} no longer reproduces from its recorded input")
            if not ok:
                return  # a different, unlisted violation on the same input
        else:
            if not ok:
                ctx.violation["origin"] = f"fixed finding {e['signature']} ({e.get('commit')}) is back"
                return
    d = os.path.join(ROOT, "replays", mod.ID)
    if os.path.isdir(d):
        for fn in sorted(os.listdir(d)):
            if fn.endswith(".json"):
                r = json.load(open(os.path.join(d, fn)))
                if not case_body(mod, ctx, dec(r["case"]), raise_on_fail=False):
                    ctx.violation["origin"] = f"committed replay {fn} fails again"
                    return
    res["notes"] = notes
    res["announce"] = announce
    ctx.extra["replays_run"] = ctx.evaluations


# ------------------------------------------------------------------------------------------------ main process
def launch(prop, tier, seed, specs, timeout):
    tmp = tempfile.mkdtemp(prefix=f"vf_{prop}_")
    env = dict(os.environ)

    def one(i_spec):
        i, spec = i_spec
        out = os.path.join(tmp, f"shard{i}.json")
        cmd = [sys.executable, "-m", "vf.runner", "--shard", prop, tier, str(i), str(seed), json.dumps(spec), out]
        try:
            p = subprocess.run(cmd, env=env, cwd=ROOT, stdout=subprocess.PIPE, stderr=subprocess.STDOUT, timeout=timeout)
            tail = p.stdout.decode(errors="replace")[-2000:]
        except subprocess.TimeoutExpired:
            return {"shard": i, "spec": spec, "harness_error": f"shard exceeded {timeout}s (inconclusive, not a violation)"}
        if not os.path.exists(out):
            return {"shard": i, "spec": spec, "harness_error": f"shard died rc={p.returncode}: {tail}"}
        r = json.load(open(out))
        r["stdout_tail"] = tail[-500:]
        return r

    try:
        with ThreadPoolExecutor(NPROC) as ex:
            return list(ex.map(one, enumerate(specs)))
    finally:
        import shutil

        shutil.rmtree(tmp, ignore_errors=True)


def write_replay(prop, v, seed, tier):
    d = os.path.join(os.environ.get("VERIF_FOUND_DIR") or os.path.join(ROOT, "replays_found"), prop)
    os.makedirs(d, exist_ok=True)
    h = "%016x" % stable_hash([v["signature"], v["case"]])
    path = os.path.join(d, f"{h}.json")
    with open(path, "w") as f:
        json.dump({"property": prop, "signature": v["signature"], "detail": v["detail"], "case": v["case"],
                   "all_signatures": v.get("all_signatures"), "origin": v.get("origin"), "seed": seed, "tier": tier}, f, indent=1)
    return path


def main(argv):
    if argv and argv[0] == "--shard":
        return shard_main(argv[1:])
    if len(argv) < 2:
        print(__doc__)
        return 2
    prop = argv[0].upper()
    seed = int(os.environ.get("VERIF_SEED", "1") or 1)
    t0 = time.time()
    try:
        assert_tree()
        mod = load_check(prop)
        if argv[1] == "--replay":
            return replay_main(mod, argv[2])
        tier = argv[1]
        assert tier in ("quick", "thorough"), tier
        mod.self_test()
    except HarnessError as ex:
        print(f"HARNESS-ERROR property={prop} {ex}")
        return 2
    except Exception:
        print(f"HARNESS-ERROR property={prop} self-test / import failed:\n{traceback.format_exc()}")
        return 2

    specs = [{"kind": "replays"}] + list(mod.plan(tier))
    timeout = getattr(mod, "SHARD_TIMEOUT", {}).get(tier, 1500 if tier == "quick" else 4 * 3600)
    results = launch(prop, tier, seed, specs, timeout)

    herr = [r for r in results if r.get("harness_error")]
    known, _fixed = load_known(prop)
    evaluations = sum(r.get("evaluations", 0) for r in results)
    nt_enumerated = sum(r.get("nt_enumerated", 0) for r in results)
    nontrivial = set()
    classes, known_hits, excluded = Counter(), Counter(), Counter()
    samples, nt_samples, extra = [], [], {}
    for r in results:
        nontrivial.update(r.get("nontrivial", ()))
        classes.update(r.get("classes", {}))
        known_hits.update(r.get("known_hits", {}))
        excluded.update(r.get("excluded", {}))
        if r.get("spec", {}).get("kind") != "replays":
            samples += r.get("samples", [])[:1]
            nt_samples += r.get("nt_samples", [])[:1]
        for k, v in (r.get("extra") or {}).items():
            if k == "collected":
                col = extra.setdefault("collected", {})
                for sig, (c, d) in v.items():
                    if sig not in col or len(c) < len(col[sig][0]):
                        col[sig] = (c, d)
            elif isinstance(v, (int, float)) and not isinstance(v, bool):
                extra[k] = extra.get(k, 0) + v
            else:
                extra.setdefault(k, v)
    violations = [r["violation"] for r in results if r.get("violation")]

    for r in results:
        for n in r.get("notes", []):
            print(n)
    announced = set()
    for r in results:
        for sig in r.get("announce", []):
            announced.add(sig)
    for sig in sorted(announced):
        print(f"KNOWN-FINDING: property={prop} {known[sig]['what_fails']} [signature={sig}]")
    if os.environ.get("VERIF_COLLECT"):
        for sig, (c, d) in sorted(extra.get("collected", {}).items()):
            print(f"COLLECTED {known_hits[sig]:6d} {sig}\n      case={c[:700]}\n      detail={d[:500]}")
    for sig in sorted((set(known_hits) - announced) & set(known)):
        # hit during the search although the recorded input did not reproduce it (should not happen; be honest about it)
        print(f"KNOWN-FINDING: property={prop} {known[sig]['what_fails']} [signature={sig}; seen in generated search only]")

    rc = 0
    vpaths = []
    seen = set()
    for v in violations:
        if v["signature"] in seen:
            continue
        seen.add(v["signature"])
        p = write_replay(prop, v, seed, tier)
        vpaths.append(p)
        print(f"VIOLATION property={prop} replay={p}")
        print(f"  signature: {v['signature']}\n  detail: {v['detail']}\n  case: {json.dumps(v['case'])[:1500]}")
        rc = 1

    exhaustive = bool(extra.pop("exhaustive", False)) and not herr
    ev = {
        "property_id": prop,
        "tier": tier,
        "seed": seed,
        "level": getattr(mod, "LEVEL", "exploration"),
        "coverage": {
            "evaluations": evaluations,
            "distinct_nontrivial": len(nontrivial) + nt_enumerated,
            "rule": mod.RULE,
            "samples": (nt_samples[:6] + samples[:3]) or samples,
            "classes": dict(sorted(classes.items(), key=lambda kv: -kv[1])[:80]),
            "known_finding_hits": dict(known_hits),
            "excluded_by_construction": dict(excluded),
            "exhaustive": exhaustive,
            "shards": len(specs),
            **extra,
        },
        "assumptions": list(getattr(mod, "ASSUMPTIONS", [])),
        "wall_s": round(time.time() - t0, 2),
        "violations": len(vpaths),
    }
    if herr:
        ev["coverage"]["harness_errors"] = [h["harness_error"][:500] for h in herr]

    # generator-health floors declared by the check (vacuity is a harness error, DESIGN 2.5)
    floor_msgs = []
    if not herr and rc == 0 and hasattr(mod, "health"):
        floor_msgs = list(mod.health(tier, evaluations, len(nontrivial) + nt_enumerated, classes) or [])

    evdir = os.environ.get("VERIF_EVIDENCE_DIR") or os.path.join(ROOT, "evidence")  # override: sensitivity runs on mutated trees
    os.makedirs(evdir, exist_ok=True)
    with open(os.path.join(evdir, f"{prop}.json"), "w") as f:
        json.dump(ev, f, indent=1, default=repr)

    print(f"{prop} {tier} seed={seed}: evaluations={evaluations} distinct_nontrivial={len(nontrivial) + nt_enumerated} "
          f"known_hits={sum(known_hits.values())} violations={len(vpaths)} wall={ev['wall_s']}s")
    if rc == 1:
        return 1
    if herr:
        for h in herr[:3]:
            print(f"HARNESS-ERROR property={prop} shard={h.get('shard')} {h['harness_error']}")
        if len(herr) > 3:
            print(f"HARNESS-ERROR property={prop} ... and {len(herr) - 3} more shards")
        return 2
    if floor_msgs:
        for m in floor_msgs:
            print(f"HARNESS-ERROR property={prop} generator health: {m}")
        return 2
    return 0


def replay_main(mod, path):
    r = json.load(open(path))
    ctx = Ctx(mod.ID, "quick", 0)
    ok = case_body(mod, ctx, dec(r["case"]), raise_on_fail=False)
    for sig, n in ctx.known_hits.items():
        print(f"KNOWN-FINDING: property={mod.ID} {ctx.known.get(sig, {}).get('what_fails', '(collected, not listed)')} [signature={sig}]")
    if not ok:
        print(f"VIOLATION property={mod.ID} replay={os.path.abspath(path)}")
        print(f"  signature: {ctx.violation['signature']}\n  detail: {ctx.violation['detail']}")
        return 1
    print(f"replay passes: property={mod.ID} {path}")
    return 0


if __name__ == "__main__":
    sys.exit(main(sys.argv[1:]))

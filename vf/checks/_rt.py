"""Shared by C01 and C10: accepted configurations of generated parsers and their serialisations."""
import contextlib
import copy
import io
import json
import math
import os
import shutil
import tempfile

from hypothesis import strategies as st

from ..core import fmt_exc, innermost_pkg_frame, short
from ..gen import parsers as P
from ..gen import types as G

FORMATS = ["yaml", "json", "json_indented"]


@G._memo
def case_strategy(depth, special_share=8):
    def with_values(special):
        return P.recipes(depth, special).flatmap(
            lambda r: st.tuples(P.values_for(r, special), st.integers(0, 7)).map(
                lambda t: {"recipe": r, "values": t[0]["values"], "subcommand": t[0]["subcommand"], "special": special, "mode": t[1]}))

    return st.one_of(*([with_values(False)] * (special_share - 1) + [with_values(True)]))


def strlike(shape):
    """str / restricted str / Enum, possibly under Optional: positions whose values are written as bare words"""
    while shape[0] == "opt":
        shape = shape[1]
    return shape[0] in ("str", "rstr", "enum")


def render_arg(shape, v):
    """one command line item for a top-level value; None when it has no unambiguous spelling"""
    if isinstance(v, str) and strlike(shape):
        return v if "\x00" not in v else None  # a top-level string is passed raw (JSON quotes would become part of it)
    try:
        t = json.dumps(G.to_jsonable(v), ensure_ascii=False, allow_nan=False)
    except (TypeError, ValueError):
        return None
    return t if "\x00" not in t else None


def argv_for(recipe, values, sub):
    shapes = P.all_shapes(recipe)
    top, subargs = [], []
    for name, v in values.items():
        t = render_arg(shapes[name], v)
        if t is None:
            return None
        if sub and name.startswith(sub + ".") and name in shapes and name.split(".", 1)[1] in [a[0] for a in recipe["sub"][sub]]:
            subargs.append(f"--{name.split('.', 1)[1]}={t}")
        else:
            top.append(f"--{name}={t}")
    return top + ([sub] + subargs if sub else [])


def accepted_configs(ctx, case):
    """-> (parser, [(channel, cfg, argv|None)]) : configurations the parser accepted for this case"""
    from jsonargparse import ArgumentError

    recipe = case["recipe"]
    try:
        p = P.build(recipe)
    except Exception as ex:  # noqa  a hint of the grammar that cannot even be declared: C02 reports it (conforming value rejected)
        ctx.cls(f"escape:parser-build:{type(ex).__name__}@{innermost_pkg_frame(ex)}")
        return None, []
    out = []
    try:
        out.append(("object", p.parse_object(P.as_object(copy.deepcopy(case["values"]), case["subcommand"])), None))
    except ArgumentError:
        ctx.cls("object-input-rejected")
    except Exception as ex:  # noqa  (C03's subject)
        ctx.cls(f"escape:{type(ex).__name__}@{innermost_pkg_frame(ex)}")
    argv = argv_for(recipe, case["values"], case["subcommand"])
    if argv is not None:
        try:
            out.append(("argv", p.parse_args(list(argv)), argv))
        except ArgumentError:
            ctx.cls("argv-input-rejected")
        except Exception as ex:  # noqa
            ctx.cls(f"escape:{type(ex).__name__}@{innermost_pkg_frame(ex)}")
    return p, out


def clean(cfg):
    """drop the config-file bookkeeping key and meta keys before comparing configurations"""
    from jsonargparse import strip_meta

    c = strip_meta(cfg.clone())
    c.pop("cfg", None)
    return c


def leaves(v, path=""):
    from jsonargparse import Namespace

    if isinstance(v, Namespace):
        for k, x in vars(v).items():
            yield from leaves(x, f"{path}.{k.lstrip(chr(0x200b))}" if path else k.lstrip(chr(0x200b)))
    elif isinstance(v, dict):
        for k, x in v.items():
            yield (path + "<key>", k)
            yield from leaves(x, f"{path}.{k}")
    elif isinstance(v, (list, tuple, set, frozenset)):
        for i, x in enumerate(v):
            yield from leaves(x, f"{path}[{i}]")
    else:
        yield (path, v)


def has_leaf(cfg, pred):
    return any(pred(x) for _p, x in leaves(cfg))


def capture_print_config(p, argv, flag="--print_config"):
    buf = io.StringIO()
    try:
        with contextlib.redirect_stdout(buf):
            p.parse_args([flag] + list(argv))
    except SystemExit as ex:
        return ex.code, buf.getvalue()
    except Exception as ex:  # noqa
        return f"raises:{type(ex).__name__}", buf.getvalue() + " || " + fmt_exc(ex)
    return None, buf.getvalue()


@contextlib.contextmanager
def scratch_dir():
    d = tempfile.mkdtemp(prefix="vf_rt_")
    try:
        yield d
    finally:
        shutil.rmtree(d, ignore_errors=True)


def nontrivial(case, cfg):
    """>= 1 given (non-default) value and a look-alike/special string leaf, nesting >= 2, a non-str-keyed dict, or an
    enum / registered / restricted / subclass / dataclass leaf"""
    if not case["values"]:
        return False
    kinds = set()
    for sh in P.all_shapes(case["recipe"]).values():
        kinds |= G.kinds_in(sh)
    if kinds & {"enum", "posint", "nnfloat", "unit", "rstr", "dictint", "dc", "cls", "tuple", "tuplevar", "set"} or kinds & set(G.REGISTERED_LEAVES):
        return True
    if any(G.depth_of(sh) >= 2 for sh in P.all_shapes(case["recipe"]).values()):
        return True
    return has_leaf(cfg, lambda x: isinstance(x, str) and (x in G.LOOKALIKE or not x.isalnum()))

"""C19  Path types accept exactly what the mode says; relative paths follow the config.

Domain   (i) complete product: every valid mode string of <= 4 flags over 'fdrwxcFDRWX' (+ the double 'cc' forms in every position)
         x a fixture of ~30 path kinds (rw/ro/wo/exec/no-permission files, directories with r-x / rw- permissions and entries inside,
         fifo, symlinks to file / dir, dangling symlink, missing with and without parent, path through a file, '.', '..', '~', '/',
         absolute, trailing slash) x 3 working directories.  Evaluated in a forked child that drops to uid/gid 65534 after importing
         everything (as root every access check succeeds and r/w/R/W could not be told apart); a root pass runs too.
         (ii) generated trees of config files nested 3 deep in different directories that reference each other and data files with
         relative spellings, parsed from 3 working directories through parse_path and --cfg, with a failing variant (missing leaf).
Oracle   (i) os.path / os.stat / os.access evaluated per flag (never the library's code); accepted => .relative is the given spelling and
         .absolute is absolute and names the same file; rejection => PathError (TypeError).  (ii) every path resolves against the directory
         of the file that mentions it; os.getcwd() is unchanged after success and after failure.
"""
import itertools
import json
import os
import shutil
import stat
import sys
import tempfile
import traceback

from hypothesis import strategies as st

from ..core import HarnessError, fmt_exc, run_given, short
from ..gen import types as G

ID = "C19"
LEVEL = "exploration"
ENGINE = "enumeration (forked, unprivileged child) + hypothesis"
TECHNIQUE = "complete enumeration of mode strings x file-system fixture against an os-level oracle in an unprivileged child process; property-based testing of nested relative config trees"
LEVEL_TEXT = ("All valid mode strings of up to four flags are checked against a 30-kind file-system fixture from three working directories, as an "
              "unprivileged user and as root (exhaustive within that bound); relative-path resolution is explored with generated config trees "
              "three files deep, from three working directories, including a failing leaf.")
LEVEL_NOTE = ("Trusted: the per-flag oracle built from os.path/os.stat/os.access, and the fixture builder. url ('u') and fsspec ('s') flags need "
              "optional packages and network and are left out. The privilege drop needs the checks to run as root (they do); otherwise only the "
              "current-uid pass runs and says so in the evidence.")
RULE = ("(i) case = (mode, path kind, working directory, uid); all enumerated; non-trivial = mode has >= 2 flags or the path is not a plain existing "
        "file or directory. (ii) case = (tree layout, spellings, working directory, entry point); non-trivial = at least two different directories "
        "are involved below the entry file. distinct: enumerated cases by construction, generated ones by hash")
ASSUMPTIONS = [
    "documented flag meanings: f file, d directory, r/w/x readable/writeable/executable, c creatable (parent directory exists and is writeable; "
    "cc: the nearest existing ancestor), upper case = the negation",
    "a fifo counts as a file (pinned by the suite)",
]
FLAGS = "fdrwxcFDRWX"
PATH_KINDS = ["f_rw", "f_ro", "f_wo", "f_x", "f_none", "dir", "dir_ro", "dir_nox", "fifo", "ln_f", "ln_d", "ln_dangling", "ln_into_missing_dir", "ln_into_ro_dir", "ln_d/newfile", "missing", "dir/missing", "dir_ro/missing", "dir_ro/inner",
              "dir_nox/inner", "nodir/missing", "nodir/sub/missing", "f_rw/under", ".", "..", "~", "/", "/nonexistent_vf/x", "@ABS@/f_rw", "dir/", "f_rw/", "dir/../f_ro", "ln_d/entry"]
CWDS = ["root", "dir", "/"]


def valid_modes():
    """from the documented rules: f and d exclude each other; a flag and its negation exclude each other; each flag once, c up to twice"""
    out = []
    for k in range(1, 5):
        for comb in itertools.combinations(FLAGS, k):
            m = "".join(comb)
            if "f" in m and "d" in m:
                continue
            if any(a in m and a.upper() in m for a in "fdrwx"):
                continue
            out.append(m)
            if "c" in m and k <= 3:
                out.append(m.replace("c", "cc"))
                if k >= 2:
                    out.append("c" + m)  # two non-adjacent c flags
    return sorted(set(out))


def build_fixture(d):
    os.chdir(d)
    os.mkdir("dir")
    os.mkdir("dir_ro")
    os.mkdir("dir_nox")
    for name, mode in (("f_rw", 0o644), ("f_ro", 0o444), ("f_wo", 0o222), ("f_x", 0o755), ("f_none", 0)):
        with open(name, "w") as f:
            f.write("x")
        os.chmod(name, mode)
    with open("dir/entry", "w") as f:
        f.write("x")
    with open("dir_ro/inner", "w") as f:
        f.write("x")
    os.chmod("dir_ro", 0o555)
    with open("dir_nox/inner", "w") as f:
        f.write("x")
    os.chmod("dir_nox", 0o666)
    os.mkfifo("fifo")
    os.symlink("f_rw", "ln_f")
    os.symlink("dir", "ln_d")
    os.symlink("nowhere", "ln_dangling")
    os.symlink("nodir/file", "ln_into_missing_dir")   # dangling, and the directory the target would live in does not exist
    os.symlink("dir_ro/newfile", "ln_into_ro_dir")    # dangling, the target's directory exists but is not writable (for an unprivileged user)


def oracle(p, mode):
    """per-flag evaluation with os-level calls only -> True (accept) / False (reject)"""
    ap = os.path.expanduser(p)
    ap = ap if os.path.isabs(ap) else os.path.join(os.getcwd(), ap)

    def isfifo():
        try:
            return stat.S_ISFIFO(os.stat(ap).st_mode)
        except OSError:
            return False

    exists = os.access(ap, os.F_OK)
    isf = os.path.isfile(ap) or isfifo()
    isd = os.path.isdir(ap)
    ok = True
    if "c" in mode:
        pd = os.path.realpath(os.path.join(ap, ".."))
        if mode.count("c") == 2:
            while not os.path.isdir(pd) and pd != os.path.dirname(pd):
                pd = os.path.realpath(os.path.join(pd, ".."))
        if not os.path.isdir(pd) or not os.access(pd, os.W_OK):
            ok = False
        if "d" in mode and exists and not isd:
            ok = False
        if "f" in mode and exists and not os.path.isfile(ap):
            ok = False
    else:
        if "f" in mode and not (exists and isf):
            ok = False
        if "d" in mode and not (exists and isd):
            ok = False
    for fl, a in (("r", os.R_OK), ("w", os.W_OK), ("x", os.X_OK)):
        if fl in mode and not os.access(ap, a):
            ok = False
        if fl.upper() in mode and os.access(ap, a):
            ok = False
    if "F" in mode and isf:
        ok = False
    if "D" in mode and isd:
        ok = False
    return ok


def spelled(kind, cwd, root):
    p = kind.replace("@ABS@", root)
    if cwd == "root" or os.path.isabs(p) or p.startswith("~"):
        return p
    if cwd == "dir":
        return os.path.join("..", p) if p not in (".", "..") else {".": "..", "..": "../.."}[p]
    return os.path.join(root, p)


def child_enumerate(drop, only=None):
    """runs in the forked child; returns a JSON-able summary"""
    from jsonargparse import Path
    from jsonargparse._util import PathError

    d = tempfile.mkdtemp(prefix="vf_c19_", dir="/tmp")
    os.chmod(d, 0o777)
    try:
        if drop:
            os.chown(d, 65534, 65534)
            os.setgroups([])
            os.setgid(65534)
            os.setuid(65534)
        os.environ["HOME"] = d
        build_fixture(d)
        modes = valid_modes()
        n = acc = nt = 0
        mism = []
        combos = only or [(m, k, c) for m in modes for k in PATH_KINDS for c in CWDS]
        for m, kind, cwd in combos:
            os.chdir({"root": d, "dir": os.path.join(d, "dir"), "/": "/"}[cwd])
            p = spelled(kind, cwd, d)
            n += 1
            if len(m) >= 2 or kind not in ("f_rw", "dir"):
                nt += 1
            exp = oracle(p, m)
            before = os.getcwd()
            try:
                P = Path(p, mode=m)
                got = True
            except PathError:
                got = False
            except Exception as ex:  # noqa
                got = "raises " + type(ex).__name__
            rec = None
            if got != exp:
                rec = f"{'accepts' if got is True else 'rejects' if got is False else got}-but-oracle-{'accepts' if exp else 'rejects'}"
            elif got is True:
                acc += 1
                ab = os.path.expanduser(p)
                ab = ab if os.path.isabs(ab) else os.path.join(os.getcwd(), ab)
                if str(P.relative) != p:
                    rec = "relative-is-not-the-given-spelling"
                elif not os.path.isabs(P.absolute) or os.path.normpath(P.absolute) != os.path.normpath(ab):
                    rec = "absolute-is-not-the-resolved-location"
            if os.getcwd() != before:
                rec = "working-directory-changed"
                os.chdir(before)
            if rec and len(mism) < 60:
                mism.append({"mode": m, "path": kind, "cwd": cwd, "what": rec, "spelled": p})
        return {"n": n, "accepted": acc, "nontrivial": nt, "uid": os.getuid(), "mismatches": mism, "modes": len(modes)}
    finally:
        os.chdir("/")
        for root_, dirs, _files in os.walk(d):
            for x in dirs:
                try:
                    os.chmod(os.path.join(root_, x), 0o777)
                except OSError:
                    pass
        shutil.rmtree(d, ignore_errors=True)


def in_child(fn, *args):
    """fork, run fn in the child, return its JSON result (the parent keeps its privileges)"""
    import jsonargparse  # noqa: F401  (everything must be imported before privileges are dropped: the stdlib is not world readable)
    from jsonargparse import Path

    try:
        Path("/nonexistent_zz", mode="fr")
    except Exception:  # noqa
        pass
    Path("/tmp", mode="drwx")
    Path("/tmp/vf_zz_c/zz", mode="fcc")
    json.dumps({"warm": [1.5, None]})
    traceback.format_exc()
    r, w = os.pipe()
    pid = os.fork()
    if pid == 0:
        os.close(r)
        try:
            out = json.dumps(fn(*args))
        except BaseException:  # noqa
            out = json.dumps({"child_error": traceback.format_exc()[-1500:]})
        os.write(w, out.encode())
        os._exit(0)
    os.close(w)
    data = b""
    while True:
        c = os.read(r, 65536)
        if not c:
            break
        data += c
    os.waitpid(pid, 0)
    res = json.loads(data.decode())
    if "child_error" in res:
        raise HarnessError("child failed: " + res["child_error"])
    return res


def mode_shard(ctx, drop):
    can_drop = os.getuid() == 0
    if drop and not can_drop:
        ctx.cls("privilege drop not possible (not root): unprivileged pass skipped")
        return
    res = in_child(child_enumerate, drop)
    ctx.evaluations += res["n"]
    ctx.nt_enumerated += res["nontrivial"]
    ctx.cls(f"uid:{res['uid']}:cases", res["n"])
    ctx.cls(f"uid:{res['uid']}:accepted", res["accepted"])
    ctx.extra["modes_enumerated"] = res["modes"]
    ctx.extra["exhaustive"] = True
    if len(ctx.samples) < 2:
        ctx.samples.append({"kind": "mode", "mode": "fcc", "path": "nodir/sub/missing", "cwd": "dir", "drop": drop})
    for m in res["mismatches"]:
        case = {"kind": "mode", "mode": m["mode"], "path": m["path"], "cwd": m["cwd"], "drop": drop}
        ctx.begin(case)
        ctx.evaluations -= 1
        ctx.finding(f"C19/mode/{m['what']}/{'unprivileged' if drop else 'root'}", {"mode": m["mode"], "path": m["spelled"], "cwd": m["cwd"]})
        if not ctx.end(raise_on_fail=False):
            return


# ------------------------------------------------------------------------------------------------- (ii) nested config trees
@G._memo
def tree_strategy():
    dirs = st.sampled_from(["a", "b", "c/d", "e"])
    return st.fixed_dictionaries({
        "kind": st.just("tree"),
        "dirs": st.tuples(dirs, dirs, dirs),                      # directory of main / inner / deep config
        "data_sub": st.tuples(st.sampled_from(["", "data", "x/y"]), st.sampled_from(["", "data"]), st.sampled_from(["", "sub"])),
        "dot": st.tuples(st.booleans(), st.booleans(), st.booleans()),   # spell relative paths with a leading ./
        "cwd": st.sampled_from(["root", "maindir", "elsewhere"]),
        "entry": st.sampled_from(["parse_path-abs", "parse_path-rel", "--cfg-abs", "--cfg-rel", "default_config_files"]),
        "append": st.booleans(),                                      # main.yaml also appends the data file to a list with an append key (more+)
        "missing": st.sampled_from([None, None, "main", "inner", "deep", "deep-config"]),
        "listfile": st.sampled_from([None, "yaml-list", "lines"]),   # main.yaml also names a *list file* (enable_path) in the deep directory
        "decoys": st.booleans(),                                      # same relative spellings exist next to the entry config and in the cwd
    })


def run_tree(ctx, case):
    import dataclasses

    from jsonargparse import ArgumentError, ArgumentParser
    from jsonargparse.typing import Path_fr

    @dataclasses.dataclass
    class Deep:
        file: Path_fr

    @dataclasses.dataclass
    class Inner:
        file: Path_fr
        deep: Deep

    root = os.path.realpath(tempfile.mkdtemp(prefix="vf_c19t_"))
    old = os.getcwd()
    try:
        dm, di, dd = [os.path.join(root, x) for x in case["dirs"]]
        for x in (dm, di, dd, os.path.join(root, "elsewhere")):
            os.makedirs(x, exist_ok=True)

        def rel(frm, to):
            return os.path.relpath(to, frm)

        def spell(p, dot):
            return ("./" + p) if dot and not p.startswith(".") else p

        data = []
        for i, (dcfg, sub) in enumerate(zip((dm, di, dd), case["data_sub"])):
            ddir = os.path.join(dcfg, sub) if sub else dcfg
            os.makedirs(ddir, exist_ok=True)
            name = f"data{i}.txt"
            if case["missing"] != ("main", "inner", "deep")[i]:
                with open(os.path.join(ddir, name), "w") as f:
                    f.write(str(i))
            data.append((os.path.join(sub, name) if sub else name, os.path.join(ddir, name)))
        sp = [spell(data[i][0], case["dot"][i]) for i in range(3)]
        deep_cfg, inner_cfg, main_cfg = os.path.join(dd, "deep.yaml"), os.path.join(di, "inner.yaml"), os.path.join(dm, "main.yaml")
        if case["missing"] != "deep-config":
            with open(deep_cfg, "w") as f:
                f.write(f"file: {sp[2]}\n")
        ref_deep, ref_inner = rel(di, deep_cfg), rel(dm, inner_cfg)
        with open(inner_cfg, "w") as f:
            f.write(f"file: {sp[1]}\ndeep: {ref_deep}\n")
        list_entries = []
        if case.get("listfile"):
            # a list file in the deep directory whose entries are relative to *its* directory
            for j in range(2):
                nm = f"item{j}.txt"
                with open(os.path.join(dd, nm), "w") as f:
                    f.write(f"item{j}")
                list_entries.append(nm)
            list_cfg = os.path.join(dd, "files.yaml" if case["listfile"] == "yaml-list" else "files.lst")
            with open(list_cfg, "w") as f:
                f.write("".join(f"- {e}\n" for e in list_entries) if case["listfile"] == "yaml-list" else "".join(e + "\n" for e in list_entries))
        if case.get("decoys"):
            for dcy in (dm, os.path.join(root, "elsewhere"), root):
                for nm in [x[0] for x in data] + ["item0.txt", "item1.txt"]:
                    pth = os.path.join(dcy, nm)
                    if not os.path.exists(pth) and os.path.isdir(os.path.dirname(pth)) and os.path.realpath(pth) not in [os.path.realpath(x[1]) for x in data]:
                        if os.path.dirname(os.path.realpath(pth)) == os.path.realpath(dd) and nm.startswith("item"):
                            continue
                        with open(pth, "w") as f:
                            f.write("decoy")
        with open(main_cfg, "w") as f:
            f.write(f"file: {sp[0]}\ninner: {ref_inner}\n" + (f"files: {rel(dm, list_cfg)}\n" if case.get("listfile") else "") + (f"more+: [{sp[0]}]\n" if case.get("append") else ""))
        cwd = {"root": root, "maindir": dm, "elsewhere": os.path.join(root, "elsewhere")}[case["cwd"]]
        os.chdir(cwd)
        entry = main_cfg if case["entry"].endswith("abs") else rel(cwd, main_cfg)
        p = ArgumentParser(exit_on_error=False, **({"default_config_files": [main_cfg]} if case["entry"] == "default_config_files" else {}))
        p.add_argument("--cfg", action="config")
        p.add_argument("--file", type=Path_fr)
        p.add_argument("--inner", type=Inner)
        from typing import List

        p.add_argument("--files", type=List[Path_fr], enable_path=True, default=[])
        p.add_argument("--more", type=List[Path_fr], default=[])
        ctx.cls("entry:" + case["entry"])
        if case.get("listfile"):
            ctx.cls("listfile:" + case["listfile"])
        ctx.cls("missing:" + str(case["missing"]))
        if len({dm, di, dd}) >= 2:
            ctx.mark_nontrivial()
        try:
            if case["entry"] == "default_config_files":
                cfg = p.parse_args([])
            else:
                cfg = p.parse_path(entry) if case["entry"].startswith("parse_path") else p.parse_args(["--cfg", entry])
            outcome = "ok"
        except ArgumentError as ex:
            outcome, msg = "rejected", str(ex)
        except Exception as ex:  # noqa
            outcome, msg = "raises:" + type(ex).__name__, fmt_exc(ex)
        if os.getcwd() != cwd:
            ctx.finding(f"C19/tree/working-directory-not-restored-after-{'success' if outcome == 'ok' else 'failure'}", {"cwd": cwd, "now": os.getcwd(), "outcome": outcome})
            os.chdir(cwd)
        if case["missing"]:
            if outcome == "ok":
                ctx.finding("C19/tree/missing-file-accepted", {"missing": case["missing"], "result": short(cfg, 300)})
            elif outcome != "rejected":
                ctx.cls("escape (C03): " + outcome)
            return
        if outcome != "ok":
            ctx.finding(f"C19/tree/valid-tree-{outcome.split(':')[0]}", {"error": short(msg, 400), "entry": entry, "cwd": case["cwd"]})
            return
        got = [cfg.file, cfg.inner.file, cfg.inner.deep.file]
        for i, (g, (given_rel, want_abs)) in enumerate(zip(got, data)):
            which = ("main", "inner", "deep")[i]
            if str(g.relative) != sp[i]:
                ctx.finding(f"C19/tree/relative-is-not-the-spelling-in-the-file/{which}", {"got": str(g.relative), "written": sp[i]})
            if not os.path.isabs(g.absolute) or os.path.realpath(g.absolute) != os.path.realpath(want_abs):
                ctx.finding(f"C19/tree/path-not-resolved-against-the-directory-of-the-file-that-mentions-it/{which}",
                            {"got": str(g.absolute), "expected": want_abs, "cwd": cwd})
            else:
                try:
                    if g.get_content() != str(i):
                        ctx.finding(f"C19/tree/wrong-file-content/{which}", {"got": g.get_content()})
                except Exception as ex:  # noqa
                    ctx.finding(f"C19/tree/get_content-raises/{which}", {"error": fmt_exc(ex)})
        if case.get("append"):
            ctx.cls("append-key")
            if len(cfg.more) != 1 or os.path.realpath(cfg.more[0].absolute) != os.path.realpath(data[0][1]):
                ctx.finding("C19/tree/append-key-path-not-resolved-against-the-directory-of-the-file-that-mentions-it", {"got": short([x.absolute for x in cfg.more], 300), "expected": data[0][1], "cwd": cwd})
        if case.get("listfile"):
            if len(cfg.files) != 2:
                ctx.finding("C19/tree/list-file-not-expanded", {"files": short(cfg.files, 200)})
            for j, g in enumerate(cfg.files[:2]):
                want = os.path.join(dd, f"item{j}.txt")
                if os.path.realpath(g.absolute) != os.path.realpath(want):
                    ctx.finding(f"C19/tree/list-file-entry-not-resolved-against-the-list-file's-directory/{case['listfile']}", {"got": str(g.absolute), "expected": want, "cwd": cwd})
                elif str(g.relative) != f"item{j}.txt":
                    ctx.finding("C19/tree/list-file-entry-relative-is-not-the-spelling", {"got": str(g.relative)})
    finally:
        os.chdir(old)
        shutil.rmtree(root, ignore_errors=True)


def run_case(ctx, case):
    if case["kind"] == "tree":
        run_tree(ctx, case)
        return
    if case.get("drop") and os.getuid() != 0:
        ctx.cls("replay needs root to drop privileges")
        return
    res = in_child(child_enumerate, bool(case.get("drop")), [(case["mode"], case["path"], case["cwd"])])
    ctx.mark_nontrivial()
    for m in res["mismatches"]:
        ctx.finding(f"C19/mode/{m['what']}/{'unprivileged' if case.get('drop') else 'root'}", {"mode": m["mode"], "path": m["spelled"], "cwd": m["cwd"]})


def body(ctx):
    def f(case):
        ctx.begin(case)
        run_case(ctx, case)
        ctx.sample()
        ctx.end()

    return f


def plan(tier):
    if tier == "quick":
        return [{"kind": "modes", "drop": True}, {"kind": "modes", "drop": False}] + [{"kind": "trees", "n": 600} for _ in range(14)]
    return [{"kind": "modes", "drop": True}, {"kind": "modes", "drop": False}] + [{"kind": "trees", "n": 4000} for _ in range(14)]


def run_shard(spec, ctx):
    if spec["kind"] == "modes":
        mode_shard(ctx, spec["drop"])
    else:
        run_given(ctx, tree_strategy(), body(ctx), spec["n"])


def health(tier, evaluations, nontrivial, classes):
    msgs = []
    if os.getuid() == 0 and classes.get("uid:65534:cases", 0) < 1000:
        msgs.append("the unprivileged pass did not run")
    for c in ("entry:parse_path-rel", "entry:--cfg-rel", "missing:None", "missing:deep"):
        if classes.get(c, 0) < 20:
            msgs.append(f"class {c} nearly absent")
    for u in ("0", "65534"):
        n, a = classes.get(f"uid:{u}:cases", 0), classes.get(f"uid:{u}:accepted", 0)
        if n and not (0.05 < a / n < 0.95):
            msgs.append(f"uid {u}: accept share {a}/{n} is degenerate")
    return msgs


def self_test():
    ms = valid_modes()
    assert "fr" in ms and "fcc" in ms and "cfc" in ms and "fd" not in ms and "rR" not in ms and "drwx" in ms, ms[:20]
    assert oracle("/", "drx") and not oracle("/", "f") and oracle("/nonexistent_vf_q", "F") and not oracle("/nonexistent_vf_q/x", "fc")
    assert spelled("f_rw", "dir", "/r") == "../f_rw" and spelled("@ABS@/f_rw", "dir", "/r") == "/r/f_rw" and spelled("~", "/", "/r") == "~"

"""C04  Sources override each other in the documented order, left to right.

Domain   one parser with a config argument and keys of four kinds (flat scalar a, nested g.x / g.y, list-typed l, dict-typed d);
         a *scenario* assigns generated values to any subset of: source defaults, 0-3 default config file entries (plain files and
         glob patterns matching two files, named so that listed order != alphabetical order), the environment config variable,
         individual environment variables, 0-6 command line items (--k=v, --l+=v, --d.item=v, --cfg file, --cfg '<json>'),
         with default_env on / off / JSONARGPARSE_DEFAULT_ENV, through parse_args, parse_env, parse_string, parse_object, parse_path.
Oracle   a ten-line reference fold over the scenario in the documented order (set replaces, 'key+' appends to the list so far,
         'd.item' sets an item in the dict so far), compared key by key with typed equality.
"""
import copy
import json
import os

from hypothesis import strategies as st

from ..core import HarnessError, fmt_exc, run_given, short
from ..gen import types as G
from . import _rt

ID = "C04"
LEVEL = "exploration"
ENGINE = "hypothesis"
TECHNIQUE = "property-based testing against a reference model (fold of the sources in the documented order) over generated source scenarios with real files and environment"
LEVEL_TEXT = ("Thousands of generated scenarios per run, each with real default config files (incl. glob patterns), a real environment and a "
              "command line; the parsed value of every key must equal an independent ten-line fold of the same assignments. Exploration: the "
              "key kinds and the number of sources per scenario bound it.")
LEVEL_NOTE = ("Trusted: the reference fold (self-tested on hand-computed scenarios) and the renderer of assignments into files / env / argv. "
              "Within one config document a key occurs at most once (order inside a mapping is not part of the statement). Known finding F21 "
              "(a 'l+' entry in the environment config ignores the list built so far) is recorded by a narrow signature.")
RULE = ("case = scenario (defaults, default config files, env config, env variables, command line items, default_env mode, parse method). "
        "non-trivial = at least three sources set the same key, or an append / dict-item assignment follows a replacement coming from a "
        "different source. distinct = hash of the scenario")
ASSUMPTIONS = [
    "environment variable names follow PREFIX_KEY with '.' -> '__' (cross-checked against the ENV: line of the help output in the self-test)",
    "files matched by one glob pattern are applied in sorted order, patterns in listed order (DOCUMENTATION: default_config_files)",
    "with default_env off the environment is ignored by parse_args / parse_string / parse_object / parse_path; parse_env always reads it",
]
KEYS = ["a", "g.x", "g.y", "l", "d", "s", "pq", "m_l", "u"]  # u: typed Union[int, List[int]] (scalar member first), only ever given lists; m_l: a list-typed option declared with a hyphen (--m-l, --m-l+); pq: an optional positional (nargs='?'); on the command line it is only ever set through --cfg
ITEMS = ["p", "q", "r"]
LIST_KEYS = ("l", "m_l", "u")


def val(k):
    if k in ("a", "g.x", "g.y", "pq"):
        return st.integers(0, 9)
    if k in LIST_KEYS:
        return st.lists(st.integers(0, 9), max_size=2)
    if k == "s":
        return st.sampled_from(["", "", "x", "v w", "zero"])  # a str-typed key, with the empty string well represented
    return st.dictionaries(st.sampled_from(ITEMS), st.integers(0, 9), max_size=2)


def assignment(with_append=True):
    sets = st.sampled_from(KEYS).flatmap(lambda k: val(k).map(lambda v: [k, "set", v]))
    if not with_append:
        return sets
    app = st.tuples(st.sampled_from(["l", "l", "m_l", "u"]), st.one_of(st.integers(0, 9), st.lists(st.integers(0, 9), min_size=1, max_size=2))).map(lambda t: [t[0], "append", t[1]])
    return st.one_of(sets, sets, sets, app)


def doc(with_append=True):
    """config document: at most one assignment per key"""
    return st.lists(assignment(with_append), max_size=3, unique_by=lambda a: a[0])


@G._memo
def scenario():
    dcf_entry = st.one_of(
        st.tuples(st.sampled_from(["z_site", "m_main", "a_local", "k"]), doc()).map(lambda t: {"file": t[0], "doc": t[1]}),
        st.sampled_from(["c_only", "c_null", "c_empty", "c_space"]).map(lambda n: {"file": n, "doc": [], "blank": n}),  # an existing file that assigns nothing (comments only / a null document)
        st.tuples(st.sampled_from(["conf.d", "b.d"]), doc(), doc(), st.sampled_from([None, None, "20_second", "10_first"])).map(
            lambda t: {"glob": t[0], "docs": [["20_second", t[1]], ["10_first", t[2]]], "listed_first": t[3]}),
        st.tuples(doc(), doc()).map(lambda t: {"glob": "w.d", "docs": [["20_second", t[0]], ["10_first", t[1]]], "listed_first": None, "with_dir": True}),  # the pattern also matches a directory  # listed_first: one of the files is *also* listed by name before the pattern
    )
    cli_item = st.one_of(
        assignment().map(lambda a: ["opt", a]), assignment().map(lambda a: ["opt", a]),
        st.tuples(st.sampled_from(ITEMS), st.integers(0, 9)).map(lambda t: ["opt", ["d", "item", [t[0], t[1]]]]),
        doc().map(lambda d: ["cfgstr", d]), doc().map(lambda d: ["cfgfile", d]))
    return st.fixed_dictionaries({
        "defaults": st.fixed_dictionaries({"s": st.sampled_from(["dflt", ""]), "a": st.integers(0, 9), "g.x": st.integers(0, 9), "l": st.lists(st.integers(0, 9), max_size=2),
                                           "d": st.dictionaries(st.sampled_from(["p", "q"]), st.integers(0, 9), max_size=1)}),
        "dcf": st.lists(dcf_entry, max_size=3, unique_by=lambda e: e.get("file") or e.get("glob")),
        "envcfg": st.one_of(st.none(), doc()),
        "envvars": st.lists(assignment(False), max_size=3, unique_by=lambda a: a[0]),
        "cli": st.lists(cli_item, max_size=6),
        "env_mode": st.sampled_from(["on", "on", "off", "envvar"]),
        "method": st.sampled_from(["parse_args", "parse_args", "parse_args", "parse_env", "parse_string", "parse_object", "parse_path"]),
        "final": doc(),   # the config handed to parse_string / parse_object / parse_path
    })


def nest(assigns):
    d = {}
    for k, op, v in assigns:
        kk = k + ("+" if op == "append" else "")
        parts = kk.split(".")
        cur = d
        for p in parts[:-1]:
            cur = cur.setdefault(p, {})
        cur[parts[-1]] = v
    return d


# ------------------------------------------------------------------------------------------------- reference fold
def apply(state, a):
    k, op, v = a
    if op == "set":
        state[k] = copy.deepcopy(v)
    elif op == "append":
        state[k] = list(state.get(k) or []) + (list(v) if isinstance(v, list) else [v])
    elif op == "item":
        d = dict(state.get("d") or {})
        d[v[0]] = v[1]
        state["d"] = d
    else:
        raise HarnessError(op)


def dcf_docs(sc):
    """default config documents in the order they take effect"""
    for e in sc["dcf"]:
        if "file" in e:
            yield e["doc"]
        else:
            if e.get("listed_first"):  # overlapping listings: the file takes effect where it is listed and again inside the pattern
                yield dict(e["docs"])[e["listed_first"]]
            for _name, d in sorted(e["docs"], key=lambda x: x[0]):
                yield d


def env_active(sc):
    return sc["env_mode"] in ("on", "envvar") or sc["method"] == "parse_env"


def fold(sc):
    s = dict(copy.deepcopy(sc["defaults"]))
    s.setdefault("g.y", None)
    s.setdefault("pq", None)
    s.setdefault("m_l", [])
    s.setdefault("u", [])
    for d in dcf_docs(sc):
        for a in d:
            apply(s, a)
    if env_active(sc):
        if sc["envcfg"] is not None:
            for a in sc["envcfg"]:
                apply(s, a)
        for a in sc["envvars"]:
            apply(s, a)
    if sc["method"] == "parse_args":
        for kind, x in sc["cli"]:
            if kind == "opt":
                apply(s, x)
            else:
                for a in x:
                    apply(s, a)
    elif sc["method"] in ("parse_string", "parse_object", "parse_path"):
        for a in sc["final"]:
            apply(s, a)
    return s


# ------------------------------------------------------------------------------------------------- execution
ctx_note = []


def run_scenario(sc, d):
    from typing import Dict, List, Optional, Union

    from jsonargparse import ArgumentParser

    files = []
    for e in sc["dcf"]:
        if "file" in e:
            fn = os.path.join(d, e["file"] + ".json")
            with open(fn, "w") as f:
                if e.get("blank"):
                    f.write({"c_only": "# nothing is assigned here\n", "c_null": "# a null document\nnull\n", "c_empty": "", "c_space": " \n\n"}[e["blank"]])
                else:
                    json.dump(nest(e["doc"]), f)
            files.append(fn)
        else:
            os.makedirs(os.path.join(d, e["glob"]), exist_ok=True)
            if e.get("with_dir"):
                os.makedirs(os.path.join(d, e["glob"], "15_between.json"), exist_ok=True)
            for name, dc in e["docs"]:
                with open(os.path.join(d, e["glob"], name + ".json"), "w") as f:
                    json.dump(nest(dc), f)
            if e.get("listed_first"):
                files.append(os.path.join(d, e["glob"], e["listed_first"] + ".json"))
                ctx_note.append("overlap")
            files.append(os.path.join(d, e["glob"], "*.json"))
    env = {}
    if sc["envcfg"] is not None:
        env["APP_CFG"] = json.dumps(nest(sc["envcfg"]))
    for k, _op, v in sc["envvars"]:
        env["APP_" + k.replace(".", "__").upper()] = v if k == "s" else json.dumps(v)  # a top-level str is passed raw
    old_env = dict(os.environ)
    try:
        if sc["env_mode"] == "envvar":
            os.environ["JSONARGPARSE_DEFAULT_ENV"] = "true"
        kw = {"default_env": True} if sc["env_mode"] == "on" else {}
        p = ArgumentParser(exit_on_error=False, prog="app", default_config_files=files, **kw)
        p.add_argument("--cfg", action="config")
        p.add_argument("--s", type=str, default=sc["defaults"]["s"])
        p.add_argument("--a", type=int, default=sc["defaults"]["a"])
        p.add_argument("--g.x", type=int, default=sc["defaults"]["g.x"])
        p.add_argument("--g.y", type=Optional[int])
        p.add_argument("--l", type=List[int], default=list(sc["defaults"]["l"]))
        p.add_argument("--m-l", type=List[int], default=[])
        p.add_argument("--u", type=Union[int, List[int]], default=[])
        p.add_argument("--d", type=Dict[str, int], default=dict(sc["defaults"]["d"]))
        p.add_argument("pq", type=int, nargs="?")
        m = sc["method"]
        if m == "parse_env":
            r = p.parse_env(dict(env))
        else:
            os.environ.update(env)
            if m == "parse_args":
                argv = []
                for n, (kind, x) in enumerate(sc["cli"]):
                    if kind == "opt":
                        k, op, v = x
                        if op == "set" and k == "pq":
                            argv += ["--cfg", json.dumps({"pq": v})]
                        elif op == "set":
                            argv.append(f"--{k.replace('_', '-')}={v if k == 's' else json.dumps(v)}")
                        elif op == "append":
                            argv.append(f"--{k.replace('_', '-')}+={json.dumps(v)}")
                        else:
                            argv.append(f"--d.{v[0]}={v[1]}")
                    elif kind == "cfgstr":
                        argv += ["--cfg", json.dumps(nest(x))]
                    else:
                        fn = os.path.join(d, f"cli{n}.json")
                        with open(fn, "w") as f:
                            json.dump(nest(x), f)
                        argv += ["--cfg", fn]
                r = p.parse_args(argv)
            elif m == "parse_string":
                r = p.parse_string(json.dumps(nest(sc["final"])))
            elif m == "parse_object":
                r = p.parse_object(nest(sc["final"]))
            else:
                fn = os.path.join(d, "final.json")
                with open(fn, "w") as f:
                    json.dump(nest(sc["final"]), f)
                r = p.parse_path(fn)
        return {k: r[k] for k in KEYS}
    finally:
        os.environ.clear()
        os.environ.update(old_env)


def sources_per_key(sc):
    """key -> ordered list of (source index, op) that touch it (for the non-triviality rule and the F21 classifier)"""
    out = {k: [] for k in KEYS}
    idx = 0
    for d in dcf_docs(sc):
        idx += 1
        for k, op, _v in d:
            out[k].append((idx, op, "dcf"))
    if env_active(sc):
        if sc["envcfg"] is not None:
            idx += 1
            for k, op, _v in sc["envcfg"]:
                out[k].append((idx, op, "envcfg"))
        idx += 1
        for k, op, _v in sc["envvars"]:
            out[k].append((idx, op, "envvar"))
    if sc["method"] == "parse_args":
        for kind, x in sc["cli"]:
            idx += 1
            for k, op, _v in ([x] if kind == "opt" else x):
                out[k].append((idx, op, "cli"))
    elif sc["method"] != "parse_env":
        idx += 1
        for k, op, _v in sc["final"]:
            out[k].append((idx, op, "final"))
    return out


def run_case(ctx, sc):
    import warnings

    from jsonargparse import ArgumentError

    warnings.simplefilter("ignore")
    exp = fold(sc)
    with _rt.scratch_dir() as d:
        try:
            got = run_scenario(sc, d)
        except ArgumentError as ex:
            ctx.finding("C04/valid-scenario-rejected", {"error": short(str(ex), 300)})
            return
        except Exception as ex:  # noqa
            ctx.finding(f"C04/scenario-raises:{type(ex).__name__}", {"error": fmt_exc(ex)})
            return
    per_key = sources_per_key(sc)
    for k in KEYS:
        if G.diff(got[k], exp[k], limit=1):
            ops = per_key[k]
            envcfg_append = any(src == "envcfg" and op == "append" for _i, op, src in ops)
            if k in LIST_KEYS and envcfg_append:
                ctx.finding("C04/F21/append-in-environment-config-ignores-the-list-built-so-far", {"key": k, "got": got[k], "expected": exp[k]})
            else:
                ctx.finding(f"C04/{sc['method']}/value-differs-from-fold/{'list' if k == 'l' else 'hyphenated-list' if k == 'm_l' else 'union-with-list' if k == 'u' else 'dict' if k == 'd' else 'scalar'}-key",
                            {"key": k, "got": got[k], "expected": exp[k], "sources": ops})
    nontrivial = False
    for k, ops in per_key.items():
        if len({i for i, _o, _s in ops}) >= 3:
            nontrivial = True
        for (i1, o1, _s1), (i2, o2, _s2) in zip(ops, ops[1:]):
            if o1 == "set" and o2 in ("append", "item") and i1 != i2:
                nontrivial = True
    if nontrivial:
        ctx.mark_nontrivial()
    ctx.cls("method:" + sc["method"])
    ctx.cls("env_mode:" + sc["env_mode"])
    ctx.cls("dcf:%d" % len(sc["dcf"]))
    if any("glob" in e for e in sc["dcf"]):
        ctx.cls("dcf-with-glob")
    if any(e.get("with_dir") for e in sc["dcf"]):
        ctx.cls("dcf-glob-also-matches-a-directory")
    if any(e.get("blank") for e in sc["dcf"]):
        ctx.cls("dcf-file-that-assigns-nothing")
    if any(k == "m_l" and op == "append" for kind, x in sc["cli"] for k, op, _v in ([x] if kind == "opt" else x)):
        ctx.cls("append-to-hyphenated-option")
    if any(e.get("listed_first") for e in sc["dcf"]):
        ctx.cls("dcf-overlapping-listing")
    ctx.sample()


def body(ctx):
    def f(case):
        ctx.begin(case)
        run_case(ctx, case)
        ctx.end()

    return f


def plan(tier):
    if tier == "quick":
        return [{"n": 500} for _ in range(16)]
    return [{"n": 10000} for _ in range(16)]


def run_shard(spec, ctx):
    run_given(ctx, scenario(), body(ctx), spec["n"])


def health(tier, evaluations, nontrivial, classes):
    msgs = []
    for c in ("method:parse_args", "method:parse_env", "method:parse_path", "env_mode:envvar", "env_mode:off", "dcf-with-glob", "dcf:3"):
        if classes.get(c, 0) < 20:
            msgs.append(f"class {c} nearly absent ({classes.get(c, 0)})")
    if nontrivial < evaluations * 0.1:
        msgs.append(f"too few non-trivial scenarios: {nontrivial}/{evaluations}")
    return msgs


def self_test():
    sc = {"defaults": {"s": "dflt", "a": 1, "g.x": 2, "l": [0], "d": {"p": 1}}, "dcf": [{"file": "z_site", "doc": [["l", "append", 5]]}, {"glob": "conf.d", "docs": [["20_second", [["a", "set", 7]]], ["10_first", [["a", "set", 6]]]]}],
          "envcfg": [["d", "set", {"q": 2}]], "envvars": [["g.x", "set", 9]], "cli": [["opt", ["d", "item", ["r", 3]]], ["cfgstr", [["l", "set", [8]]]], ["opt", ["l", "append", [1, 2]]]],
          "env_mode": "on", "method": "parse_args", "final": []}
    assert fold(sc) == {"s": "dflt", "a": 7, "g.x": 9, "l": [8, 1, 2], "d": {"q": 2, "r": 3}, "g.y": None, "pq": None, "m_l": [], "u": []}, fold(sc)
    assert fold(dict(sc, env_mode="off")) == {"s": "dflt", "a": 7, "g.x": 2, "l": [8, 1, 2], "d": {"p": 1, "r": 3}, "g.y": None, "pq": None, "m_l": [], "u": []}
    assert fold(dict(sc, method="parse_env", env_mode="off"))["l"] == [0, 5]
    # the environment variable naming rule, cross-checked against what the parser's own help states
    from typing import Optional

    from jsonargparse import ArgumentParser

    p = ArgumentParser(prog="app", default_env=True)
    p.add_argument("--g.x", type=Optional[int])
    if "APP_G__X" not in p.format_help():
        import warnings

        warnings.warn("environment variable naming rule differs from the help output (the fold's renderer uses PREFIX_A__B)")

"""C20  Restricted and registered scalar types validate exactly, serialise losslessly.

Domain   (i) complete enumeration: restriction sets of 1-3 comparisons over {>,>=,<,<=,==,!=} x {int, float} x {and, or} x reference
         values {0,1,2} / {0.0,0.5,1.0} x ~40 candidate values (numbers around the bounds, integral floats, bools, numeric strings with
         blanks / signs / underscores / exponents, junk, None, containers, huge, inf, nan); regexes x strings for restricted_string_type.
         (ii) generated values of every built-in registered type (complex, Decimal, UUID, timedelta, bytes, bytearray, range, pathlib
         paths) incl. extremes, plain and inside Optional / List / Dict, through dump (yaml, json) -> parse_string and --cfg, and the
         serialised scalar on the command line; SecretStr through every dump / print_config variant.
Oracle   (i) the statement as a predicate: not a bool, converts to the base type (an int base takes floats only if integral), the
         comparisons joined by and/or hold; the accepted value == base(v), type is T, T(T(v)) == T(v).  (ii) inverse: typed equality of
         parse(dump(v)) with v per channel; the secret text never occurs in any produced text.
"""
import base64
import copy
import datetime
import decimal
import itertools
import json
import math
import operator
import pathlib
import re
import uuid

from hypothesis import strategies as st

from ..core import HarnessError, fmt_exc, run_given, short
from ..gen import types as G
from . import _rt

ID = "C20"
LEVEL = "exploration"
ENGINE = "enumeration + hypothesis"
TECHNIQUE = "complete enumeration of restriction sets x candidate values against a predicate oracle; property-based round-trip testing of registered types"
LEVEL_TEXT = ("The restricted number types are checked on the complete product of restriction sets (1-3 comparisons, 6 operators, 3 reference "
              "values, and/or, int/float) x 40 candidates (exhaustive within that bound); restricted strings on a regex x string table; "
              "registered types by thousands of generated values per run through every serialisation channel.")
LEVEL_NOTE = ("Trusted: the 15-line predicate (python's own int()/float() conversion is the meaning of 'converts to the base type'); typed "
              "equality for registered values. Types are created with explicit names derived from the sorted restriction key because the "
              "library's registry is process global. Known finding F19 (Decimal goes through binary float) is recorded by a narrow signature.")
RULE = ("(i) case = (restriction set, join, base, candidate); all are enumerated; non-trivial = the candidate is not a plain number of the base type "
        "or lies on a boundary of a comparison. (ii) case = (registered type, wrapper, value); non-trivial = the value is an extreme (negative / "
        "sub-second timedelta, empty or negative-step range, empty bytes, exponent or high-precision Decimal, complex with a zero part) or sits "
        "inside a container. distinct: enumerated cases are distinct by construction, generated ones by hash")
ASSUMPTIONS = [
    "'matches the pattern' for restricted strings means re.match (anchored at the start), python's meaning of match",
    "a rejected value may raise ValueError or TypeError; which one is not part of the statement",
]
OPS = {">": operator.gt, ">=": operator.ge, "<": operator.lt, "<=": operator.le, "==": operator.eq, "!=": operator.ne}
class FloatSub(float):
    pass


class IntSub(int):
    pass


class StrSub(str):
    pass


def realise(v):
    """candidates that are instances of subclasses of the basic types are kept symbolic ({"$sub": base, "v": value}) so that cases stay plain data"""
    if isinstance(v, dict) and "$sub" in v:
        return {"float": FloatSub, "int": IntSub, "str": StrSub}[v["$sub"]](v["v"])
    return v


CANDIDATES = [{"$sub": "float", "v": 2.5}, {"$sub": "float", "v": 2.0}, {"$sub": "float", "v": 0.5}, {"$sub": "int", "v": 1}, {"$sub": "str", "v": "1"}, {"$sub": "str", "v": "1.5"},
              0, 1, 2, -1, 3, 0.0, 0.5, 1.0, 1.5, 2.0, -0.5, 2.5, 1e22, -0.0, True, False, "0", "1", " 1 ", "+1", "-1", "1_0", "1e0", "1.0", "1.5", "abc", "", " ", "0x1", "１",
              None, [1], {"a": 1}, (1,), 10**30, float("inf"), float("-inf"), float("nan"), "nan", "inf", b"1", 1 + 0j]


def oracle_number(base, restrictions, join, v):
    """the statement as a predicate -> (accept, base_value)"""
    if isinstance(v, bool):
        return False, None
    try:
        if base is int and isinstance(v, float) and not v.is_integer():
            return False, None
        bv = base(v)
    except (ValueError, TypeError, OverflowError):
        return False, None
    checks = [OPS[op](bv, ref) for op, ref in restrictions]
    ok = all(checks) if join == "and" else any(checks)
    return ok, bv


def type_name(base, restrictions, join):
    key = "_".join(f"{op}{ref}" for op, ref in sorted(restrictions))
    return "VfR_" + base.__name__ + "_" + join + "_" + re.sub(r"[^0-9a-zA-Z]", lambda m: "%02x" % ord(m.group()), key)


def make_type(base, restr, join):
    """the registry is process global and keyed by the restriction set: a set that one of the predefined types already uses
    must be asked for under that type's name"""
    from jsonargparse.typing import restricted_number_type

    try:
        return restricted_number_type(type_name(base, restr, join), base, list(restr), join=join)
    except ValueError as ex:
        m = re.search(r"different name: (\w+)", str(ex))
        if not m:
            raise
        return restricted_number_type(m.group(1), base, list(restr), join=join)


def restriction_sets(base):
    refs = [0, 1, 2] if base is int else [0.0, 0.5, 1.0]
    singles = [(op, r) for op in OPS for r in refs]
    for n in (1, 2, 3):
        for combo in itertools.combinations(singles, n):
            yield list(combo)


def enum_shard(ctx, part, of):
    from jsonargparse.typing import restricted_number_type

    idx = 0
    for base in (int, float):
        for restr in restriction_sets(base):
            for join in ("and", "or"):
                if len(restr) == 1 and join == "or":
                    continue
                idx += 1
                if idx % of != part:
                    continue
                T = make_type(base, restr, join)
                for v in CANDIDATES:
                    case = {"kind": "number", "base": base.__name__, "restrictions": [list(r) for r in restr], "join": join, "value": v}
                    ctx.begin(case)
                    check_number(ctx, T, base, restr, join, v)
                    rv = realise(v)
                    boundary = isinstance(rv, (int, float)) and not isinstance(rv, bool) and any(rv == ref for _op, ref in restr)
                    if boundary or not (type(rv) is base):
                        ctx.mark_nontrivial_enumerated()
                    if not ctx.end(raise_on_fail=False):
                        return
    ctx.extra["exhaustive"] = True


def check_number(ctx, T, base, restr, join, v):
    v = realise(v)
    exp, bv = oracle_number(base, restr, join, v)
    try:
        got = T(v)
        acc = True
    except (ValueError, TypeError, OverflowError):
        acc, got = False, None
    except Exception as ex:  # noqa
        ctx.finding(f"C20/restricted-number/unexpected-exception:{type(ex).__name__}", {"error": fmt_exc(ex)})
        return
    ctx.cls("number:" + ("accept" if acc else "reject"))
    if acc != exp:
        kind = _value_kind(v)
        ctx.finding(f"C20/restricted-number/{base.__name__}/{'accepts' if acc else 'rejects'}-but-predicate-{'accepts' if exp else 'rejects'}/{kind}",
                    {"value": repr(v), "restrictions": restr, "join": join})
        return
    if acc:
        same = (got == bv) or (isinstance(bv, float) and math.isnan(bv) and math.isnan(got))
        if not same or type(got) is not T or not isinstance(got, base):
            ctx.finding(f"C20/restricted-number/{base.__name__}/accepted-value-differs-from-base-conversion", {"value": repr(v), "got": repr(got), "base": repr(bv)})
        try:
            again = T(got)
            if not ((again == got) or (isinstance(got, float) and math.isnan(got))) or type(again) is not T:
                ctx.finding(f"C20/restricted-number/{base.__name__}/casting-again-changes-the-value", {"value": repr(v), "first": repr(got), "second": repr(again)})
        except Exception as ex:  # noqa
            ctx.finding(f"C20/restricted-number/{base.__name__}/casting-again-raises", {"value": repr(v), "error": fmt_exc(ex)})


def _value_kind(v):
    if isinstance(v, bool):
        return "bool"
    if isinstance(v, str):
        return "str"
    if isinstance(v, float):
        return "float:" + ("nan" if math.isnan(v) else "inf" if math.isinf(v) else "integral" if v.is_integer() else "fractional")
    return type(v).__name__


REGEXES = ["^[a-z]+$", "^[a-z]{2,4}$", "[0-9a-f]{4}$", "v[0-9]+", "^a", "b$", "", ".", "^$", "(?i)abc", "a|b", "^(a|b)+$", "\\d+\\.\\d+", "^\\s*x",
           # patterns handed over as compiled objects, with flags: [pattern, flag letters]
           ["^#[0-9a-f]{6}$", "I"], ["^a.b$", "S"], ["^x$", "M"], ["^ [a-c] + $", "XI"]]
STRINGS = ["", "a", "ab", "abc", "abcde", "A", "xx00ff", "00ff", "rev12", "v12", "v12x", "ba", "b", "ABC", "1.5", "x1.5", " x", "\nx", "a\n", "ab\n", 5, None, b"ab", ["a"],
           "#00FF7F", "#00ff7f", "a\nb", "y\nx", "AbC"]
FLAGS = {"I": re.IGNORECASE, "S": re.DOTALL, "M": re.MULTILINE, "X": re.VERBOSE}


def string_shard(ctx):
    from jsonargparse.typing import restricted_string_type

    for i, rx in enumerate(REGEXES):
        if isinstance(rx, list):
            bits = 0
            for ch in rx[1]:
                bits |= FLAGS[ch]
            rxo = re.compile(rx[0], bits)
            ctx.cls("string:compiled-pattern-with-flags")
        else:
            rxo = rx
        T = restricted_string_type(f"VfRS{i}", rxo)
        for v in STRINGS:
            case = {"kind": "string", "regex": rx, "value": v if not isinstance(v, bytes) else {"$bytes": v.decode()}}
            ctx.begin(case)
            exp = isinstance(v, str) and re.match(rxo, v) is not None
            try:
                got = T(v)
                acc = True
            except (ValueError, TypeError):
                acc, got = False, None
            except Exception as ex:  # noqa
                ctx.finding(f"C20/restricted-string/unexpected-exception:{type(ex).__name__}", {"error": fmt_exc(ex)})
                ctx.end(raise_on_fail=False)
                continue
            ctx.cls("string:" + ("accept" if acc else "reject"))
            if acc != exp:
                ctx.finding(f"C20/restricted-string/{'accepts' if acc else 'rejects'}-but-re.match-{'matches' if exp else 'does-not-match'}", {"regex": rx, "value": repr(v)})
            elif acc and (got != v or type(got) is not T or T(got) != got):
                ctx.finding("C20/restricted-string/accepted-value-differs-or-cast-not-idempotent", {"regex": rx, "value": repr(v), "got": repr(got)})
            ctx.mark_nontrivial_enumerated()
            if not ctx.end(raise_on_fail=False):
                return
    # the predefined types, through a parser (object channel and command line)
    from jsonargparse import ArgumentError, ArgumentParser
    from jsonargparse.typing import ClosedUnitInterval, NonNegativeFloat, NonNegativeInt, OpenUnitInterval, PositiveFloat, PositiveInt

    predefined = {"PositiveInt": (PositiveInt, int, [(">", 0)]), "NonNegativeInt": (NonNegativeInt, int, [(">=", 0)]), "PositiveFloat": (PositiveFloat, float, [(">", 0.0)]),
                  "NonNegativeFloat": (NonNegativeFloat, float, [(">=", 0.0)]), "ClosedUnitInterval": (ClosedUnitInterval, float, [(">=", 0.0), ("<=", 1.0)]),
                  "OpenUnitInterval": (OpenUnitInterval, float, [(">", 0.0), ("<", 1.0)])}
    for name, (T, base, restr) in predefined.items():
        p = ArgumentParser(exit_on_error=False)
        p.add_argument("--x", type=T)
        for v in [c for c in CANDIDATES if not isinstance(c, (str, bytes, complex)) and c is not None and not (isinstance(c, dict) and "$sub" in c)]:
            case = {"kind": "predefined", "type": name, "value": v, "channel": "object"}
            ctx.begin(case)
            exp, bv = oracle_number(base, restr, "and", v)
            try:
                got = p.parse_object({"x": copy.deepcopy(v)}).x
                acc = True
            except ArgumentError:
                acc = False
            ctx.cls("predefined:" + ("accept" if acc else "reject"))
            if acc != exp:
                ctx.finding(f"C20/predefined/{name}/parser-{'accepts' if acc else 'rejects'}-but-predicate-{'accepts' if exp else 'rejects'}/{_value_kind(v)}", {"value": repr(v)})
            elif acc and not (got == bv and isinstance(got, base) and not isinstance(got, bool)):
                ctx.finding(f"C20/predefined/{name}/parsed-value-differs", {"value": repr(v), "got": repr(got)})
            ctx.mark_nontrivial_enumerated()
            if not ctx.end(raise_on_fail=False):
                return
    ctx.extra["exhaustive"] = True


# ------------------------------------------------------------------------------------------------- registered types
def reg_table():
    td = datetime.timedelta
    return {
        "complex": (complex, st.one_of(st.complex_numbers(allow_nan=False, allow_infinity=False), st.sampled_from([0j, 1 + 0j, 1j, -0.0 - 0.0j, complex(1e22, -1e-7), complex(0.1, 0.2)]))),
        "Decimal": (decimal.Decimal, st.one_of(st.decimals(allow_nan=False, allow_infinity=False, places=3), st.integers(-10**6, 10**6).map(decimal.Decimal),
                                               st.sampled_from([decimal.Decimal("0.5"), decimal.Decimal("1"), decimal.Decimal("1E+3"), decimal.Decimal("0.25"), decimal.Decimal("-0"),
                                                                decimal.Decimal("0.1"), decimal.Decimal("3.14159265358979323846264338327950288")]))),
        "UUID": (uuid.UUID, st.uuids()),
        "timedelta": (td, st.one_of(st.timedeltas(), st.sampled_from([td(0), td(days=-1, seconds=1), td(microseconds=1), td(days=1), td(days=999999999), td(days=1, hours=12), td(hours=-1),
                                                                      td(days=2, microseconds=5), td(seconds=86399, microseconds=999999), td(days=-999999999)]))),
        "bytes": (bytes, st.one_of(st.binary(max_size=8), st.sampled_from([__import__("base64").b64decode(x) for x in ("+1e5", "1e30", "true", "null", "1234")]))),  # (base64 texts that look like numbers / keywords)
        "bytearray": (bytearray, st.binary(max_size=8).map(bytearray)),
        "range": (range, st.one_of(st.builds(range, st.integers(-5, 5), st.integers(-5, 5), st.integers(-3, 3).filter(lambda s: s != 0)), st.builds(range, st.integers(-3, 3)),
                                   st.builds(range, st.integers(-3, 3), st.integers(-3, 3)), st.sampled_from([range(0, 10, 2), range(0), range(0, 0, 5), range(5, 0, -1), range(0, -6, -2)]))),
        "Path": (pathlib.Path, st.sampled_from(["a", "/tmp/x", ".", "a/b", "a b", "1e3", "x.yaml", "..", "/", "a/../b", "é", "-1e3", "+1e5", "-1.5e3", "1_0e3", ".5", "0x1F", "1:30", "true", "2001-01-01"]).map(pathlib.Path)),
        "PosixPath": (pathlib.PosixPath, st.sampled_from(["a", "/tmp/x", "a/b", "null", "~"]).map(pathlib.PosixPath)),
    }


def enc_reg(k, v):
    if k == "complex":
        return [v.real.hex(), v.imag.hex()]
    if k == "Decimal":
        return str(v)
    if k == "UUID":
        return str(v)
    if k == "timedelta":
        return [v.days, v.seconds, v.microseconds]
    if k in ("bytes", "bytearray"):
        return bytes(v).hex()
    if k == "range":
        return [v.start, v.stop, v.step]
    return str(v)


def dec_reg(k, e):
    if k == "complex":
        return complex(float.fromhex(e[0]), float.fromhex(e[1]))
    if k == "Decimal":
        return decimal.Decimal(e)
    if k == "UUID":
        return uuid.UUID(e)
    if k == "timedelta":
        return datetime.timedelta(days=e[0], seconds=e[1], microseconds=e[2])
    if k == "bytes":
        return bytes.fromhex(e)
    if k == "bytearray":
        return bytearray.fromhex(e)
    if k == "range":
        return range(*e)
    return reg_table()[k][0](e)


@G._memo
def reg_strategy():
    T = reg_table()
    reg = st.sampled_from(sorted(T)).flatmap(lambda k: st.tuples(T[k][1], st.sampled_from(["plain", "plain", "opt", "list", "dict", "any", "listfile", "posq"])).map(
        lambda t: {"kind": "registered", "type": k, "wrap": t[1], "value": enc_reg(k, t[0])}))
    secret = st.tuples(st.text(alphabet="abcdefghijklmnopqrstuvwxyzABCXYZ0123456789", min_size=6, max_size=12), st.sampled_from(["plain", "opt", "list", "dc", "any"])).map(
        lambda t: {"kind": "secret", "wrap": t[1], "value": "S3c" + t[0]})
    return st.one_of(reg, reg, reg, reg, secret)


def eq_typed(a, b):
    if type(a) is not type(b):
        return False
    if isinstance(a, complex):
        return (a.real == b.real or (math.isnan(a.real) and math.isnan(b.real))) and a.imag == b.imag
    if isinstance(a, decimal.Decimal):
        return a == b  # numeric equality: 1E+3 and 1000 denote the same value
    if isinstance(a, range):
        return (a.start, a.stop, a.step) == (b.start, b.stop, b.step) or (len(a) == 0 and len(b) == 0) or a == b
    return a == b


def extreme(k, v):
    if k == "timedelta":
        return v.days < 0 or v.microseconds != 0 or abs(v.days) > 10**6
    if k == "range":
        return len(v) == 0 or v.step < 0
    if k in ("bytes", "bytearray"):
        return len(v) == 0
    if k == "Decimal":
        return v.as_tuple().exponent > 0 or len(v.as_tuple().digits) > 15 or v.is_zero()
    if k == "complex":
        return v.real == 0 or v.imag == 0
    return False


def run_registered(ctx, case):
    from typing import Dict, List, Optional

    from jsonargparse import ArgumentError, ArgumentParser

    k, wrap = case["type"], case["wrap"]
    T = reg_table()[k][0]
    v = dec_reg(k, case["value"])
    if wrap in ("any", "listfile", "posq"):
        return run_registered_elsewhere(ctx, case, k, wrap, T, v)
    TT = {"plain": T, "opt": Optional[T], "list": List[T], "dict": Dict[str, T]}[wrap]
    vv = {"plain": v, "opt": v, "list": [v], "dict": {"k": v}}[wrap]
    p = ArgumentParser(exit_on_error=False)
    p.add_argument("--cfg", action="config")
    p.add_argument("--x", type=TT)
    ctx.cls(f"registered:{k}:{wrap}")
    if extreme(k, v) or wrap in ("list", "dict"):
        ctx.mark_nontrivial()

    def inner(x):
        return x if wrap in ("plain", "opt") else x[0] if wrap == "list" else x["k"]

    def report(step, detail):
        sig = f"C20/registered/{k}/{step}"
        quoted_null = re.search(r"""['"](null|Null|NULL|~)['"]""", str(detail.get("dump", ""))) is not None and str(detail.get("got")) == "None"
        if wrap == "opt" and step.startswith("roundtrip-differs") and (str(v) in ("null", "Null", "NULL", "~") or quoted_null):
            # (also a value of another registered type whose *serialised text* spells null, e.g. bytes whose base64 is 'null')
            sig = "C20/F23/Optional-path-spelled-like-YAML-null-reads-back-as-None"
        elif k == "Decimal" and step.startswith(("roundtrip-differs", "argv")) and (decimal.Decimal(float(v)) != v or decimal.Decimal(repr(float(v))) != v):
            # the float the serializer produces, or its text (what a command line / config carries), is not the Decimal
            sig = "C20/F19/Decimal-not-exactly-representable-as-binary-float-is-serialised-through-float"
        ctx.finding(sig, detail)

    try:
        cfg = p.parse_object({"x": copy.deepcopy(vv)})
    except Exception as ex:  # noqa
        report(f"value-of-the-type-rejected-by-parse_object:{type(ex).__name__}", {"value": repr(v), "error": fmt_exc(ex)})
        return
    if not eq_typed(inner(cfg.x), v):
        report("parse_object-changes-value", {"value": repr(v), "got": repr(cfg.x)})
        return
    for fmt in ("yaml", "json"):
        try:
            d = p.dump(copy.deepcopy(cfg), format=fmt)
        except Exception as ex:  # noqa
            report(f"dump-raises/{fmt}:{type(ex).__name__}", {"value": repr(v), "error": fmt_exc(ex)})
            continue
        for chan in ("parse_string", "--cfg"):
            try:
                c2 = p.parse_string(d) if chan == "parse_string" else p.parse_args(["--cfg", d])
            except Exception as ex:  # noqa
                report(f"reparse-raises/{fmt}/{chan}", {"value": repr(v), "dump": short(d, 200), "error": fmt_exc(ex)})
                continue
            got = c2.x
            if got is None or not eq_typed(inner(got), v) or type(got) is not type(cfg.x):
                report(f"roundtrip-differs/{fmt}/{chan}", {"value": repr(v), "dump": short(d, 200), "got": repr(got)})
    if wrap == "plain":
        ser = json.loads(p.dump(copy.deepcopy(cfg), format="json"))["x"]
        raw = ser if isinstance(ser, str) else json.dumps(ser)
        if not raw.startswith("-") or True:
            try:
                c3 = p.parse_args(["--x=" + raw])
                if not eq_typed(c3.x, v):
                    report("argv-roundtrip-differs", {"value": repr(v), "text": raw, "got": repr(c3.x)})
            except Exception as ex:  # noqa
                report("argv-reparse-raises", {"value": repr(v), "text": raw, "error": fmt_exc(ex)})


def run_registered_elsewhere(ctx, case, k, wrap, T, v):
    """a value of a registered type (i) held by an ``Any``-typed argument: its dump is the type's config representation, which an argument
    of that type reads back; (ii) as the items of a List[T] argument read from a file with one item per line"""
    import os
    from typing import Any, List

    from jsonargparse import ArgumentParser

    ctx.cls(f"registered:{k}:{wrap}")
    ctx.mark_nontrivial()
    typed = ArgumentParser(exit_on_error=False)
    typed.add_argument("--x", type=T)

    def f19(step):
        if k == "Decimal" and (decimal.Decimal(float(v)) != v or decimal.Decimal(repr(float(v))) != v):
            return "C20/F19/Decimal-not-exactly-representable-as-binary-float-is-serialised-through-float"
        return f"C20/registered/{k}/{step}"

    if wrap == "any":
        p = ArgumentParser(exit_on_error=False)
        p.add_argument("--x", type=Any)
        try:
            cfg = p.parse_object({"x": copy.deepcopy(v)})
        except Exception as ex:  # noqa
            ctx.finding(f"C20/registered/{k}/under-Any/instance-rejected:{type(ex).__name__}", {"value": repr(v), "error": fmt_exc(ex)})
            return
        for fmt in ("yaml", "json"):
            try:
                d = p.dump(copy.deepcopy(cfg), format=fmt)
            except Exception as ex:  # noqa
                ctx.finding(f"C20/registered/{k}/under-Any/dump-raises/{fmt}:{type(ex).__name__}", {"value": repr(v), "error": fmt_exc(ex)})
                continue
            try:
                back = typed.parse_string(d).x
            except Exception as ex:  # noqa
                ctx.finding(f19(f"under-Any/dump-not-read-by-an-argument-of-the-type/{fmt}"), {"value": repr(v), "dump": short(d, 200), "error": fmt_exc(ex)})
                continue
            if not eq_typed(back, v):
                ctx.finding(f19(f"under-Any/roundtrip-differs/{fmt}"), {"value": repr(v), "dump": short(d, 200), "got": repr(back)})
        return
    if wrap == "posq":
        # an optional positional of the type, left off the command line and given in a config file / config string instead
        p = ArgumentParser(exit_on_error=False)
        p.add_argument("--cfg", action="config")
        p.add_argument("x", type=T, nargs="?")
        cfg1 = typed.parse_object({"x": copy.deepcopy(v)})
        doc = json.dumps({"x": json.loads(typed.dump(cfg1, format="json"))["x"]})
        with _rt.scratch_dir() as d:
            f = os.path.join(d, "c.json")
            with open(f, "w", encoding="utf-8") as fh:
                fh.write(doc)
            for chan, argv in (("--cfg string", ["--cfg", doc]), ("--cfg file", ["--cfg", f])):
                try:
                    got = p.parse_args(list(argv)).x
                except Exception as ex:  # noqa
                    ctx.finding(f19(f"optional-positional/{chan}/rejected"), {"value": repr(v), "doc": doc, "error": fmt_exc(ex)})
                    continue
                if not eq_typed(got, v):
                    ctx.finding(f19(f"optional-positional/{chan}/value-differs"), {"value": repr(v), "doc": doc, "got": repr(got)})
        return
    # listfile: the serialised texts of [v, v] one per line
    cfg1 = typed.parse_object({"x": copy.deepcopy(v)})
    ser = json.loads(typed.dump(cfg1, format="json"))["x"]
    text = ser if isinstance(ser, str) else json.dumps(ser)
    if text.strip() != text or text == "" or "\n" in text or "\r" in text:
        ctx.exclude("list file: an item whose text is empty / has surrounding blanks / a line break has no line of its own")
        return
    p = ArgumentParser(exit_on_error=False)
    p.add_argument("--x", type=List[T], enable_path=True)
    with _rt.scratch_dir() as d:
        f = os.path.join(d, "items.lst")
        with open(f, "w", encoding="utf-8") as fh:
            fh.write(text + "\n" + text + "\n")
        try:
            got = p.parse_args(["--x", f]).x
        except Exception as ex:  # noqa
            ctx.finding(f19("list-file/rejected"), {"value": repr(v), "line": text, "error": fmt_exc(ex)})
            return
    if not (isinstance(got, list) and len(got) == 2 and all(eq_typed(g, v) for g in got)):
        ctx.finding(f19("list-file/items-differ"), {"value": repr(v), "line": text, "got": repr(got)[:200]})


def run_secret(ctx, case):
    import contextlib
    import dataclasses
    import io
    from typing import List, Optional

    from jsonargparse import ArgumentParser
    from jsonargparse.typing import SecretStr

    secret, wrap = case["value"], case["wrap"]

    @dataclasses.dataclass
    class Creds:
        user: str = "u"
        password: SecretStr = SecretStr("dflt")

    p = ArgumentParser(exit_on_error=False)
    p.add_argument("--cfg", action="config")
    from typing import Any

    TT = {"plain": SecretStr, "opt": Optional[SecretStr], "list": List[SecretStr], "dc": Creds, "any": Any}[wrap]
    if wrap == "any":  # an untyped parameter whose default is a secret (fail_untyped=False makes such parameters Any-typed arguments)
        p.add_argument("--x", type=TT, default=SecretStr(secret))
    else:
        p.add_argument("--x", type=TT)
    val = {"plain": secret, "opt": secret, "list": [secret, "other"], "dc": {"password": secret}, "any": None}[wrap]
    ctx.cls("secret:" + wrap)
    ctx.mark_nontrivial()
    cfg = p.parse_object({"x": val}) if wrap != "any" else p.parse_args([])
    got = cfg.x if wrap in ("plain", "opt", "any") else cfg.x[0] if wrap == "list" else cfg.x.password
    if not isinstance(got, SecretStr) or got.get_secret_value() != secret:
        ctx.finding("C20/secret/value-not-kept", {"got": repr(got)})
    texts = {"repr": repr(cfg), "str": str(cfg)}
    for fmt in ("yaml", "json", "json_indented"):
        for kw in ({}, {"skip_none": False}, {"skip_default": True}, {"yaml_comments": True} if fmt == "yaml" else {}):
            texts[f"dump({fmt},{sorted(kw)})"] = p.dump(copy.deepcopy(cfg), format=fmt, **kw)
    argv = ["--x=" + (secret if wrap in ("plain", "opt") else json.dumps(val))] if wrap != "any" else []
    for flag in ("--print_config", "--print_config=skip_null", "--print_config=skip_default", "--print_config=comments"):
        buf = io.StringIO()
        try:
            with contextlib.redirect_stdout(buf):
                p.parse_args(argv + [flag])
        except SystemExit:
            pass
        texts[flag] = buf.getvalue()
    with _rt.scratch_dir() as d:
        import os

        f = os.path.join(d, "saved.yaml")
        p.save(copy.deepcopy(cfg), f)
        texts["save"] = open(f).read()
    for name, t in texts.items():
        if secret in t:
            ctx.finding(f"C20/secret/secret-text-appears-in-{name.split('(')[0]}", {"where": name, "text": short(t, 200)})


def run_case(ctx, case):
    if case["kind"] == "registered":
        run_registered(ctx, case)
    elif case["kind"] == "secret":
        run_secret(ctx, case)
    elif case["kind"] == "number":
        from jsonargparse.typing import restricted_number_type

        base = {"int": int, "float": float}[case["base"]]
        restr = [tuple(r) for r in case["restrictions"]]
        T = make_type(base, restr, case["join"])
        check_number(ctx, T, base, restr, case["join"], case["value"])
        ctx.mark_nontrivial()
    else:
        raise HarnessError(f"replay of kind {case['kind']} is done by re-running the enumeration")


def body(ctx):
    def f(case):
        ctx.begin(case)
        run_case(ctx, case)
        ctx.sample()
        ctx.end()

    return f


def plan(tier):
    enum = [{"kind": "enum", "part": i, "of": 12} for i in range(12)] + [{"kind": "strings"}]
    if tier == "quick":
        return enum + [{"kind": "registered", "n": 1500} for _ in range(12)]
    return enum + [{"kind": "registered", "n": 12000} for _ in range(16)]


def run_shard(spec, ctx):
    if spec["kind"] == "enum":
        enum_shard(ctx, spec["part"], spec["of"])
    elif spec["kind"] == "strings":
        string_shard(ctx)
    else:
        run_given(ctx, reg_strategy(), body(ctx), spec["n"])


def health(tier, evaluations, nontrivial, classes):
    msgs = []
    for k in reg_table():
        if sum(v for c, v in classes.items() if c.startswith(f"registered:{k}:")) < 20:
            msgs.append(f"registered type {k} nearly absent")
    for c in ("number:accept", "number:reject", "string:accept", "string:reject", "secret:dc", "predefined:accept", "predefined:reject"):
        if classes.get(c, 0) < 10:
            msgs.append(f"class {c} nearly absent")
    return msgs


def self_test():
    assert oracle_number(int, [(">", 0)], "and", 1) == (True, 1) and oracle_number(int, [(">", 0)], "and", True)[0] is False
    assert oracle_number(int, [(">", 0)], "and", 1.5)[0] is False and oracle_number(int, [(">", 0)], "and", 2.0) == (True, 2)
    assert oracle_number(float, [(">=", 0.0), ("<=", 1.0)], "and", "0.5") == (True, 0.5) and oracle_number(float, [(">", 0.0), ("<", 0.0)], "or", 0.0)[0] is False
    assert oracle_number(int, [("!=", 1)], "and", None)[0] is False and oracle_number(int, [("!=", 1)], "and", " 2 ") == (True, 2)
    assert type_name(int, [(">", 0), ("<", 2)], "and") == type_name(int, [("<", 2), (">", 0)], "and")
    for k, (T, strat) in reg_table().items():
        pass
    v = datetime.timedelta(days=-1, seconds=1)
    assert dec_reg("timedelta", enc_reg("timedelta", v)) == v and dec_reg("complex", enc_reg("complex", 1 - 2j)) == 1 - 2j

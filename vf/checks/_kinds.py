"""Shared runner for the 'argument kinds' family (vf/gen/kinds.py): one generated (parser, settings) pair is taken through every
channel; C05 judges the agreement of the channels, C01 the dump / print_config round trip of every accepted result, C10 the fixed
points (validate, parse_object, dump cycle).  The signatures carry the property id, so the three checks stay independent."""
import copy
import json
import os

from hypothesis import strategies as st

from ..core import fmt_exc, short
from ..gen import kinds as K
from ..gen import types as G
from . import _rt


@G._memo
def case_strategy():
    return K.recipes().flatmap(lambda r: st.tuples(K.values_for(r), st.integers(0, 3)).map(
        lambda t: {"kind": "kinds", "recipe": r, "values": t[0], "layout": t[1]}))


def parse_all(case):
    """-> {channel: ("ok", cfg) | ("rej", message) | ("esc", message)}"""
    from jsonargparse import ArgumentError

    recipe, values = case["recipe"], case["values"]
    obj = K.object_for(recipe, values)
    out = {}

    def attempt(name, fn):
        try:
            out[name] = ("ok", fn())
        except ArgumentError as ex:
            out[name] = ("rej", str(ex)[:300])
        except BaseException as ex:  # noqa
            out[name] = ("esc", fmt_exc(ex))

    attempt("object", lambda: K.build(recipe).parse_object(copy.deepcopy(obj)))
    attempt("string", lambda: K.build(recipe).parse_string(json.dumps(obj, ensure_ascii=False)))
    attempt("--cfg string", lambda: K.build(recipe).parse_args(["--cfg", json.dumps(obj, ensure_ascii=False)]))
    if K.expressible_on_argv(recipe, values):
        attempt("argv", lambda: K.build(recipe).parse_args(K.argv_for(recipe, values, case.get("layout", 0))))
    if recipe.get("env"):
        old = dict(os.environ)
        try:
            os.environ.update(K.env_for(recipe, values))
            attempt("environment", lambda: K.build(recipe).parse_args([]))
        finally:
            os.environ.clear()
            os.environ.update(old)
    return out


def run(ctx, case, prop):
    import warnings

    warnings.simplefilter("ignore")
    recipe, values = case["recipe"], case["values"]
    for n, s in recipe["parts"].items():
        ctx.cls("kinds-part:" + n + (":" + str(s.get("nargs") or s.get("style")) if s.get("nargs") or s.get("style") else ""))
    res = parse_all(case)
    if len(values) >= 2 and (set(values) & {"posq", "rest", "pair", "many", "fn", "ty", "flag", "grp.w"}):
        ctx.mark_nontrivial()
    for ch, (st_, _v) in res.items():
        ctx.cls(f"kinds:{ch}:{st_}")
    if prop == "C05":
        judge_agreement(ctx, case, res)
    elif prop == "C01":
        judge_roundtrip(ctx, case, res)
    elif prop == "C10":
        judge_fixed_point(ctx, case, res)
    ctx.sample()


def judge_agreement(ctx, case, res):
    recipe, values = case["recipe"], case["values"]
    ref_ch = "object"
    ref = res[ref_ch]
    for ch, r in res.items():
        if r[0] == "esc":
            ctx.cls("escape (C03)")
    oks = {ch: _rt.clean(r[1]) for ch, r in res.items() if r[0] == "ok"}
    rej = [ch for ch, r in res.items() if r[0] == "rej"]
    if oks and rej:
        for ch in rej:
            ctx.finding(f"C05/kinds/accepted-through-{sorted(oks)[0]}-rejected-through-{ch}", {"error": res[ch][1], "values": short(values, 300), "argv": K.argv_for(recipe, values, case.get("layout", 0))})
    if ref[0] == "ok":
        base = oks[ref_ch]
        for ch, cfg in oks.items():
            if ch == ref_ch:
                continue
            for path, got, want in G.diff(cfg, base, limit=3):
                part = path.split("[")[0].split("<")[0]
                ctx.finding(f"C05/kinds/{ch}-differs-from-object/{part}", {"path": path, "object": repr(want)[:160], ch: repr(got)[:160], "values": short(values, 300),
                                                                      "argv": K.argv_for(recipe, values, case.get("layout", 0)) if ch == "argv" else None})
    for ch, cfg in oks.items():
        for name, want, got in K.given_ok(recipe, values, cfg):
            ctx.finding(f"C05/kinds/given-value-arrives-differently/{ch}/{name}", {"expected": repr(want)[:160], "got": repr(got)[:160], "values": short(values, 300)})


def judge_roundtrip(ctx, case, res):
    from . import c01

    recipe = case["recipe"]
    p = K.build(recipe)
    for ch in ("object", "argv"):
        if res.get(ch, ("", None))[0] != "ok":
            continue
        ctx.cls("accepted:" + ch)
        cfg = res[ch][1]
        base = _rt.clean(cfg)
        for fmt in _rt.FORMATS:
            for skip_default in (False, True):
                step = "dump(skip_default)" if skip_default else "dump"
                try:
                    text = p.dump(copy.deepcopy(cfg), format=fmt, skip_none=False, skip_default=skip_default)
                except Exception as ex:  # noqa
                    ctx.finding(f"C01/kinds/{step}/{fmt}/dump-raises:{type(ex).__name__}", {"error": fmt_exc(ex), "cfg": repr(base)[:300]})
                    continue
                try:
                    back = p.parse_string(text)
                except Exception as ex:  # noqa
                    ctx.finding(f"C01/kinds/{step}/{fmt}/reparse-raises:{type(ex).__name__}", {"error": fmt_exc(ex), "text": short(text, 300)})
                    continue
                for path, got, want in G.diff(_rt.clean(back), base, limit=3):
                    sig = c01.classify(case, fmt, step, path, want, got) or f"C01/kinds/{step}/{fmt}/differs:{path.split('[')[0]}"
                    ctx.finding(sig, {"path": path, "original": repr(want)[:160], "reparsed": repr(got)[:160], "text": short(text, 300)})
        if ch == "argv":
            argv = K.argv_for(recipe, case["values"], case.get("layout", 0))
            code, text = _rt.capture_print_config(K.build(recipe), argv, "--print_config")
            ctx.cls("kinds:print_config")
            if code != 0:
                ctx.finding(f"C01/kinds/--print_config/exit-code-{code}", {"argv": argv, "stdout": short(text, 300)})
            else:
                try:
                    back = p.parse_string(text)
                except Exception as ex:  # noqa
                    ctx.finding(f"C01/kinds/--print_config/reparse-raises:{type(ex).__name__}", {"error": fmt_exc(ex), "text": short(text, 300)})
                else:
                    for path, got, want in G.diff(_rt.clean(back), base, limit=3):
                        sig = c01.classify(case, "yaml", "--print_config", path, want, got) or f"C01/kinds/--print_config/differs:{path.split('[')[0]}"
                        ctx.finding(sig, {"path": path, "original": repr(want)[:160], "reparsed": repr(got)[:160], "text": short(text, 300)})


def judge_fixed_point(ctx, case, res):
    from . import c10

    recipe = case["recipe"]
    p = K.build(recipe)
    for ch, r in res.items():
        if r[0] != "ok":
            continue
        cfg = r[1]
        base = _rt.clean(cfg)
        try:
            p.validate(copy.deepcopy(cfg))
        except Exception as ex:  # noqa
            ctx.finding(f"C10/kinds/validate-rejects-parse-result/{ch}", {"error": fmt_exc(ex), "cfg": repr(base)[:300]})
        try:
            again = p.parse_object(copy.deepcopy(cfg))
        except Exception as ex:  # noqa
            ctx.finding(f"C10/kinds/parse_object-rejects-parse-result/{ch}", {"error": fmt_exc(ex), "cfg": repr(base)[:300]})
        else:
            for path, got, want in G.diff(_rt.clean(again), base, limit=3):
                ctx.finding(f"C10/kinds/parse_object-changes-parse-result/{path.split('[')[0]}", {"channel": ch, "path": path, "first": repr(want)[:160], "second": repr(got)[:160]})
        for fmt in _rt.FORMATS:
            try:
                d1 = p.dump(copy.deepcopy(cfg), format=fmt, skip_none=False)
                back = p.parse_string(d1)
                d2 = p.dump(copy.deepcopy(back), format=fmt, skip_none=False)
            except Exception as ex:  # noqa
                ctx.finding(c10._known(case, fmt, base, None) or f"C10/kinds/dump-cycle-raises/{fmt}/{type(ex).__name__}", {"error": fmt_exc(ex), "cfg": repr(base)[:300]})
                continue
            ctx.cls("dump-cycle-compared")
            if d1 != d2:
                diffs = G.diff(_rt.clean(back), base, limit=6)
                sigs = {c10._known(case, fmt, want, got) for _p, got, want in diffs}
                if diffs and None not in sigs:
                    for sg in sorted(sigs):
                        ctx.finding(sg, {"format": fmt, "first": short(d1, 300), "second": short(d2, 300)})
                else:
                    ctx.finding(f"C10/kinds/dump-not-stable/{fmt}", {"first": short(d1, 300), "second": short(d2, 300)})

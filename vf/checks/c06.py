"""C06  Unknown keys are never silently ignored; required keys are enforced.

Domain   generated parsers (nested groups, dataclass fields incl. nested / List / Dict / Optional dataclasses, class arguments with
         init_args and nested class arguments, lists and dicts of classes, subcommand sections) x a valid configuration x **every
         position** of the configuration tree that the parser defines (enumerated per case, not sampled) x mutation {insert a foreign
         key; remove a required key; set a required key to null} x channel {object, config text, --cfg string, dotted command line
         option where the position is expressible, environment variable holding the enclosing top-level value}.
Oracle   metamorphic: the unmutated tree is accepted (precondition, checked); the mutated tree raises ArgumentError whose message
         names the foreign key / the required key.  Free-form positions (values of Dict[str, scalar], Any, dict_kwargs) are not
         positions of the property and are skipped by rule.  parse_known_args from user code raises NotImplementedError.
"""
import copy
import json

from hypothesis import strategies as st

from ..core import HarnessError, fmt_exc, innermost_pkg_frame, run_given, with_spellings, short
from ..gen import parsers as P
from ..gen import types as G
from . import _rt

ID = "C06"
LEVEL = "exploration"
ENGINE = "hypothesis + per-case enumeration of positions"
TECHNIQUE = "metamorphic property-based testing: every parser-defined position of a generated valid configuration gets a foreign key / loses a required key, through four channels"
LEVEL_TEXT = ("For each generated (parser, valid configuration) pair all mapping positions that the parser defines are enumerated and mutated "
              "one at a time; each mutant must be rejected with an error naming the key, through object, config text, command line and "
              "environment. A fixed family of required arguments (top level, group, subcommand, nested subcommand, embedded parsers) x omitted / null / "
              "section left out x channels x defaults flag is enumerated completely. Exploration over parsers and configurations, complete over "
              "the positions of each configuration.")
LEVEL_NOTE = ("Trusted: the position walker, which follows the generator's own shape of every value (never the library's view). The foreign key "
              "has a unique name (zq7) that occurs nowhere else, so 'the message names it' is a plain substring test.")
RULE = ("case = (parser recipe, valid values); one evaluation per (position, mutation, channel). non-trivial = mutation position at depth >= 2 or "
        "inside a list / dict / init_args / subcommand section. distinct = hash of (case, position, mutation, channel)")
ASSUMPTIONS = [
    "values of Dict[str, T] arguments, Any and dict_kwargs are free-form by documentation and are not positions of the property",
    "an unknown *environment variable* is not a key of a configuration (the environment always holds unrelated variables); the environment "
    "channel carries the mutated top-level value of a known argument",
]
FOREIGN = "zq7"


@G._memo
def case_strategy(depth):
    leaves = ["str", "int", "float", "bool", "enum:Color", "posint"]
    rec = P.recipes(depth, False, classes=True, sub=True, max_args=3, leaves=leaves)
    return rec.flatmap(lambda r: P.values_for(r).map(lambda v: {"recipe": r, "values": v["values"], "subcommand": v["subcommand"]}))


# ------------------------------------------------------------------------------------------------- positions
def _plain_optional(shape):
    """Optional[T] proper (a two-member Union with None): documented to become an option defaulting to None when it has no default, so
    it is not a required key.  Union[A, B, None] and Literal[..., None] without default stay required."""
    # decided on the shape, not on the built hint: the hint may be spelled T | None or wrapped in Annotated (DESIGN 3.1b)
    if shape[0] != "opt":
        return False
    while shape[0] == "opt":  # Optional[Optional[T]] is Optional[T]
        shape = shape[1]
    return shape[0] != "union"  # Optional[Union[A, B]] is the three-member Union[A, B, None]


def positions(shape, value, path):
    """yield (path, kind, required_keys) for every mapping inside ``value`` whose keys the parser defines.
    path is a list of steps: str key | int index; kind in dc / spec / init_args"""
    k = shape[0]
    if value is None:
        return
    if k == "opt":
        yield from positions(shape[1], value, path)
    elif k == "union":
        return  # which member a mapping belongs to is not determined by the generator: skipped
    elif k in ("list", "seq", "tuplevar") and isinstance(value, list):
        for i, x in enumerate(value):
            yield from positions(shape[1], x, path + [i])
    elif k == "tuple" and isinstance(value, list):
        for i, (t, x) in enumerate(zip(shape[1:], value)):
            yield from positions(t, x, path + [i])
    elif k in ("dict", "dictint") and isinstance(value, dict):
        for kk, x in value.items():
            yield from positions(shape[1], x, path + [kk])
    elif k == "dc" and isinstance(value, dict):
        req = [f[0] for f in shape[2] if not f[2] and not _plain_optional(f[1])]
        yield (path, "dc", req)
        for name, t, _h, _d in shape[2]:
            if name in value:
                yield from positions(t, value[name], path + [name])
    elif k == "cls" and isinstance(value, dict) and "class_path" in value:
        yield (path, "spec", ["class_path"])
        ia = value.get("init_args")
        if isinstance(ia, dict):
            cls = value["class_path"].rsplit(".", 1)[-1]
            req = {"SubReq": ["need"], "Holder": ["inner"]}.get(cls, [])
            yield (path + ["init_args"], "init_args", req)
            if cls == "Holder" and isinstance(ia.get("inner"), dict):
                yield from positions(["cls", "Base"], ia["inner"], path + ["init_args", "inner"])


def get_at(obj, path):
    for s in path:
        obj = obj[s]
    return obj


def mutate(obj, path, fn):
    obj = copy.deepcopy(obj)
    fn(get_at(obj, path))
    return obj


def all_positions(case):
    """positions of the whole configuration object: top level, groups, subcommand section, and inside the values"""
    recipe = case["recipe"]
    obj = P.as_object(copy.deepcopy(case["values"]), case["subcommand"])
    out = [([], "top", [])]
    groups = set()
    for name in case["values"]:
        parts = name.split(".")
        for i in range(1, len(parts)):
            groups.add(tuple(parts[:i]))
    shapes = P.all_shapes(recipe)
    sub = case["subcommand"]
    for g in sorted(groups):
        # a dotted prefix is a group unless it is the key of an argument itself
        if ".".join(g) not in shapes:
            out.append((list(g), "subcommand-section" if sub and g == (sub,) else "group", []))
    if sub and (sub,) not in groups:
        out.append(([sub], "subcommand-section", []))
    has_default = {a[0]: a[2] for a in recipe["args"]}
    for sname, args in (recipe.get("sub") or {}).items():
        has_default.update({sname + "." + a[0]: a[2] for a in args})
    for name, v in case["values"].items():
        for path, kind, req in positions(shapes[name], v, name.split(".")):
            if path == name.split(".") and has_default.get(name):
                req = []  # the argument's own default supplies the fields that are left out
            out.append((path, kind, req))
    return obj, out


def expressible_as_option(case, path, kind):
    """a dotted option addresses the position only when every step is a name the parser defines (group, dataclass field,
    init_args): steps through list indices or through the free keys of a Dict[...] value are not option names"""
    if not all(isinstance(s, str) for s in path):
        return False
    if kind in ("top", "group", "subcommand-section"):
        return True
    shapes = P.all_shapes(case["recipe"])
    name = next((n for n in case["values"] if path[: len(n.split("."))] == n.split(".")), None)
    if name is None:
        return False
    shape, rest = shapes[name], path[len(name.split(".")):]
    while True:
        while shape[0] == "opt":
            shape = shape[1]
        if not rest:
            return True
        step, rest = rest[0], rest[1:]
        if shape[0] == "dc":
            f = {x[0]: x[1] for x in shape[2]}
            if step not in f:
                return False
            shape = f[step]
        elif shape[0] == "cls":
            if step == "init_args":
                if not rest:
                    return True
                if rest[0] == "inner":
                    shape, rest = ["cls", "Base"], rest[1:]
                    continue
            return False
        else:
            return False


# ------------------------------------------------------------------------------------------------- channels
def parse_via(channel, recipe, obj, extra_argv=None):
    """-> ('ok', cfg) | ('rej', message) | ('esc', text)"""
    from jsonargparse import ArgumentError

    p = P.build(dict(recipe, env=True))
    try:
        if channel == "object":
            return ("ok", p.parse_object(copy.deepcopy(obj)))
        if channel == "string":
            return ("ok", p.parse_string(json.dumps(G.to_jsonable(obj))))
        if channel == "--cfg string":
            return ("ok", p.parse_args(["--cfg", json.dumps(G.to_jsonable(obj))]))
        if channel == "option":
            return ("ok", p.parse_args(["--cfg", json.dumps(G.to_jsonable(obj))] + extra_argv))
        if channel == "environment":
            return ("ok", p.parse_env(extra_argv))
    except ArgumentError as ex:
        return ("rej", str(ex))
    except Exception as ex:  # noqa  (C03's subject)
        return ("esc", fmt_exc(ex))
    raise AssertionError(channel)


def run_case(ctx, case):
    if case.get("kind") == "required":
        required_family(ctx, only=case)
        return
    recipe = case["recipe"]
    obj, poss = all_positions(case)
    base = parse_via("object", recipe, obj)
    if base[0] != "ok":
        ctx.cls("unmutated-configuration-rejected (precondition)")
        return
    if parse_via("string", recipe, obj)[0] != "ok":
        ctx.cls("unmutated-configuration-rejected-as-text (precondition)")
        return
    ctx.cls("cases-with-accepted-base")
    sub = case["subcommand"]
    shapes = P.all_shapes(recipe)
    for path, kind, required in poss:
        deep = len(path) >= 2 or kind in ("init_args", "spec", "subcommand-section") or any(isinstance(s, int) for s in path)
        muts = [("insert-foreign-key", lambda m: m.__setitem__(FOREIGN, 1), FOREIGN),
                # a foreign name that looks like an append ('key+'): it is a key of the configuration like any other
                ("insert-foreign-key+", lambda m: m.__setitem__(FOREIGN + "+", [1]), FOREIGN),
                # ... and one whose value is an empty section
                ("insert-foreign-key{}", lambda m: m.__setitem__(FOREIGN, {}), FOREIGN)]
        # a foreign key that is a proper string prefix of a declared key of this mapping (a half-typed name), holding null / an empty section
        here = get_at(obj, path) if path else obj
        longer = [k for k in (here if isinstance(here, dict) else {}) if isinstance(k, str) and len(k) >= 2 and k[:-1] not in here and k[:-1] not in ("subcomman",)]
        if longer and kind in ("dc", "init_args", "top", "group", "subcommand-section"):
            pre = longer[0][:-1]
            muts.append(("insert-prefix-of-a-declared-key:null", lambda m, pre=pre: m.__setitem__(pre, None), pre))
        if kind == "spec" and len(path) == 1 and _implied_base(shapes.get(path[0])) and str(get_at(obj, path).get("class_path", "")).endswith(".Base"):
            # short form: class_path left out because the declared class is concrete; a foreign key beside init_args is still foreign
            def short_form(m):
                m.pop("class_path")
                m.setdefault("init_args", {})
                m[FOREIGN] = 1
            muts.append(("insert-foreign-key-beside-init_args-of-short-form", short_form, FOREIGN))
        for r in required:
            if r == "class_path":
                continue
            muts.append((f"remove-required-key", lambda m, r=r: m.pop(r, None), r))
            muts.append((f"null-required-key", lambda m, r=r: m.__setitem__(r, None), r))
        for mname, fn, key in muts:
            try:
                bad = mutate(obj, path, fn)
            except Exception:  # noqa
                continue
            if mname == "remove-required-key" and get_at(bad, path) == {}:
                ctx.exclude("removal leaves an empty mapping (= no settings given; an Optional value then is None)")
                continue
            chans = [("object", None), ("string", None), ("--cfg string", None)]
            if mname == "insert-foreign-key" and expressible_as_option(case, path, kind):
                opt_path = path[1:] if sub and path[:1] == [sub] else path
                argv = ([sub] if sub and path[:1] == [sub] else []) + ["--" + ".".join(opt_path + [FOREIGN]) + "=1"]
                if sub and path[:1] != [sub]:
                    argv = argv + [sub]
                chans.append(("option", argv))
            top = path[0] if path else None
            if mname == "insert-foreign-key" and path and not sub and isinstance(top, str) and kind in ("dc", "spec", "init_args"):
                # the environment variable of the enclosing top-level argument carries the mutated value
                name = next((n for n in case["values"] if path[: len(n.split("."))] == n.split(".")), None)
                if name:
                    val = get_at(bad, name.split("."))
                    chans.append(("environment", {"VF_" + name.replace(".", "__").upper(): json.dumps(G.to_jsonable(val))}))
            for ch, extra in chans:
                ctx.evaluations += 1
                if ch == "option":
                    r = parse_via("option", recipe, obj, extra)
                elif ch == "environment":
                    r = parse_via("environment", recipe, None, extra)
                else:
                    r = parse_via(ch, recipe, bad)
                ctx.cls(f"{mname}:{kind}:{ch}:{r[0]}")
                if deep:
                    ctx.mark_nontrivial((case, path, mname, ch))
                where = f"{kind}/{ch}"
                if r[0] == "ok" and mname == "insert-foreign-key{}":
                    ctx.finding("C06/F56/foreign-key-with-an-empty-mapping-as-value-is-silently-dropped", {"path": path, "channel": ch, "mutated": short(bad, 300)})
                elif r[0] == "ok":
                    ctx.finding(f"C06/{mname}/accepted/{where}", {"path": path, "key": key, "mutated": short(bad if ch != 'option' else extra, 300)})
                elif r[0] == "esc":
                    ctx.cls("escape (C03)")
                elif key not in r[1]:
                    ctx.finding(f"C06/{mname}/error-does-not-name-the-key/{where}", {"path": path, "key": key, "message": short(r[1], 300)})
    # short form of a class spec (class_path implied by a concrete declared class): a foreign key beside init_args is still foreign
    for name, shape in shapes.items():
        if _implied_base(shape):
            bad = copy.deepcopy(obj)
            cur = bad
            parts = name.split(".")
            for q in parts[:-1]:
                cur = cur.setdefault(q, {})
            cur[parts[-1]] = {"init_args": {"p": 1}, FOREIGN: 1}
            good = copy.deepcopy(bad)
            get_at(good, parts).pop(FOREIGN)
            if parse_via("object", recipe, good)[0] != "ok":
                ctx.cls("short-form-spec-rejected (precondition)")
                continue
            for ch in ("object", "string", "--cfg string"):
                ctx.evaluations += 1
                r = parse_via(ch, recipe, bad)
                ctx.cls(f"foreign-key-beside-init_args-of-short-form:{ch}:{r[0]}")
                if r[0] == "ok":
                    ctx.finding(f"C06/insert-foreign-key-beside-init_args-of-short-form/accepted/spec/{ch}", {"argument": name, "mutated": short(bad, 300)})
                elif r[0] == "rej" and FOREIGN not in r[1]:
                    ctx.finding(f"C06/insert-foreign-key-beside-init_args-of-short-form/error-does-not-name-the-key/spec/{ch}", {"argument": name, "message": short(r[1], 300)})
    # an argument whose type has no nested keys (scalars, lists, tuples, sets) does not accept one on the command line either
    if not sub:
        for name, shape, _h, _d in recipe["args"]:
            scalar = ("int", "float", "bool", "posint", "nnfloat", "unit", "enum", "str", "rstr")
            # (a list whose items admit nested keys - dicts, dataclasses, class specs - passes a nested option on to its last item)
            if shape[0] in ("tuple", "tuplevar", "set") + scalar[:-2] or (shape[0] in ("list", "seq") and shape[1][0] in scalar):
                ctx.evaluations += 1
                r = parse_via("option", recipe, obj, [f"--{name}.{FOREIGN}=1"])
                ctx.cls(f"nested-option-below-{shape[0]}:{r[0]}")
                if r[0] == "ok":
                    ctx.finding(f"C06/nested-option-below-an-argument-without-nested-keys/accepted/{shape[0]}", {"option": f"--{name}.{FOREIGN}=1"})
    # there is no lenient mode that accepts leftovers: parse_known_args from user code is refused
    try:
        P.build(dict(recipe, env=True)).parse_known_args(["--zq7=1"])
        ctx.finding("C06/parse_known_args-available-to-user-code", {})
    except NotImplementedError:
        ctx.cls("parse_known_args:NotImplementedError")
    except Exception as ex:  # noqa
        ctx.cls("parse_known_args:" + type(ex).__name__)
    # required subcommand: removing the choice must fail
    if sub:
        bad = copy.deepcopy(obj)
        bad.pop("subcommand", None)
        bad.pop(sub, None)
        for ch in ("object", "string"):
            ctx.evaluations += 1
            r = parse_via(ch, recipe, bad)
            ctx.cls(f"remove-required-subcommand:{ch}:{r[0]}")
            if r[0] == "ok":
                ctx.finding(f"C06/remove-required-subcommand/accepted/{ch}", {"mutated": short(bad, 300)})
    ctx.sample()


def _implied_base(shape):
    while shape and shape[0] == "opt":
        shape = shape[1]
    return shape == ["cls", "Base"]


class LinkedReq:
    """a class with one required parameter that a link feeds and another one that stays the user's business"""

    def __init__(self, fed: str, must: int, opt: int = 0):
        self.fed, self.must, self.opt = fed, must, opt


def required_family(ctx, only=None):
    """plain required arguments (top level, in a group, in a subcommand, in a nested subcommand) x omitted / null x channels x the
    defaults flag of the parse methods: enumerated completely (small)"""
    import itertools

    from jsonargparse import ActionParser, ArgumentError, ArgumentParser

    def build():
        p = ArgumentParser(exit_on_error=False, env_prefix="APP", default_env=False)
        p.add_argument("--cfg", action="config")
        p.add_argument("--top", type=str, required=True)
        p.add_argument("--grp.need", type=int, required=True)
        p.add_argument("--opt", type=int, default=1)
        p.add_argument("--rdef", type=int, required=True, default=5)  # required although it has a default: it can be left out, not nulled
        from typing import Any

        p.add_argument("--anyarg", type=Any, default=None)
        inner = ArgumentParser(exit_on_error=False)
        inner.add_argument("--x", type=int, required=True)
        inner.add_argument("--y", type=int, default=2)
        p.add_argument("--inner", action=ActionParser(parser=inner))  # an embedded parser with a required argument of its own, between the others
        p.add_argument("--after", type=int, required=True)
        inner2 = ArgumentParser(exit_on_error=False)
        inner2.add_argument("--z", type=int, required=True)
        p.add_argument("--my-inner", action=ActionParser(parser=inner2))  # (an option name with a hyphen: the keys use an underscore)
        p.add_argument("--lk", type=LinkedReq)
        p.link_arguments("top", "lk.init_args.fed")  # (fed is not required from the user; must still is)
        sc = p.add_subcommands(required=True)
        fit = ArgumentParser(exit_on_error=False)
        fit.add_argument("--data", type=str, required=True)
        fit.add_argument("--epochs", type=int, default=3)
        sc.add_subcommand("fit", fit)
        ev = ArgumentParser(exit_on_error=False)
        ev.add_argument("--ckpt", type=str, required=True)
        sc.add_subcommand("eval", ev)
        sc2 = ev.add_subcommands(required=True, dest="how")
        fast = ArgumentParser(exit_on_error=False)
        fast.add_argument("--n", type=int, required=True)
        sc2.add_subcommand("fast", fast)
        return p

    full = {"fit": {"top": "t", "grp": {"need": 1}, "inner": {"x": 4}, "after": 6, "my_inner": {"z": 8}, "rdef": 7, "lk": {"class_path": __name__ + ".LinkedReq", "init_args": {"must": 3}}, "subcommand": "fit", "fit": {"data": "d"}},
            "eval": {"top": "t", "grp": {"need": 1}, "inner": {"x": 4}, "after": 6, "my_inner": {"z": 8}, "rdef": 7, "lk": {"class_path": __name__ + ".LinkedReq", "init_args": {"must": 3}}, "subcommand": "eval", "eval": {"ckpt": "c", "how": "fast", "fast": {"n": 2}}}}
    required = {"fit": [["top"], ["grp", "need"], ["fit", "data"], ["inner", "x"], ["after"], ["my_inner", "z"], ["lk", "init_args", "must"], ["rdef"]],
                "eval": [["top"], ["grp", "need"], ["eval", "ckpt"], ["eval", "fast", "n"], ["inner", "x"], ["after"], ["my_inner", "z"], ["lk", "init_args", "must"], ["rdef"]]}

    def argv_of(obj, sub):
        out = [f"--top={obj['top']}"] if obj.get("top") is not None else []
        if obj.get("rdef") is not None:
            out.append(f"--rdef={obj['rdef']}")
        if (obj.get("grp") or {}).get("need") is not None:
            out.append(f"--grp.need={obj['grp']['need']}")
        if (obj.get("inner") or {}).get("x") is not None:
            out.append(f"--inner.x={obj['inner']['x']}")
        if obj.get("after") is not None:
            out.append(f"--after={obj['after']}")
        if (obj.get("my_inner") or {}).get("z") is not None:
            out.append(f"--my-inner.z={obj['my_inner']['z']}")
        if obj.get("lk") is not None:
            out.append(f"--lk={obj['lk']['class_path']}")
            if (obj["lk"].get("init_args") or {}).get("must") is not None:
                out.append(f"--lk.init_args.must={obj['lk']['init_args']['must']}")
        out.append(sub)
        sec = obj.get(sub) or {}
        if sub == "fit":
            out += [f"--data={sec['data']}"] if sec.get("data") is not None else []
        else:
            out += [f"--ckpt={sec['ckpt']}"] if sec.get("ckpt") is not None else []
            out.append("fast")
            if (sec.get("fast") or {}).get("n") is not None:
                out.append(f"--n={sec['fast']['n']}")
        return out

    def one(case):
        sub, key, mut, channel, defaults = case["sub"], case["key"], case["mutation"], case["channel"], case["defaults"]
        obj = copy.deepcopy(full[sub])
        parent = get_at(obj, key[:-1])
        if mut == "remove":
            parent.pop(key[-1])
        elif mut == "null":
            parent[key[-1]] = None
        else:
            get_at(obj, key[:-2]).pop(key[-2])  # the whole enclosing section is left out; the subcommand stays named
        p = build()
        try:
            if channel == "object":
                p.parse_object(obj, defaults=defaults)
            elif channel == "string":
                p.parse_string(json.dumps(obj), defaults=defaults)
            elif channel == "--cfg":
                p.parse_args(["--cfg", json.dumps(obj)], defaults=defaults)
            else:
                p.parse_args(argv_of(obj, sub), defaults=defaults)
            r = ("ok", None)
        except ArgumentError as ex:
            r = ("rej", str(ex))
        except Exception as ex:  # noqa
            r = ("esc", fmt_exc(ex))
        ctx.cls(f"required-family:{mut}:{channel}:defaults={defaults}:{r[0]}")
        ctx.evaluations += 1
        where = f"{'.'.join(key)}/{channel}/defaults={defaults}"
        if r[0] == "ok":
            ctx.finding(f"C06/required-family/{mut}/accepted/{where}", {"input": short(obj, 300)})
        elif r[0] == "esc":
            ctx.cls("escape (C03)")
        elif key[-1] not in r[1] and not (mut == "remove-section" and key[-2] in r[1]):
            ctx.finding(f"C06/required-family/{mut}/error-does-not-name-the-key/{where}", {"message": short(r[1], 300)})

    if only is not None and only.get("mutation") != "none":
        return one(only)
    for sub, path, mut, channel, defaults in ([] if only is not None else itertools.product(("fit", "eval"), range(9), ("remove", "null", "remove-section"), ("object", "string", "argv", "--cfg"), (True, False))):
        if path >= len(required[sub]):
            continue
        key = required[sub][path]
        if mut == "remove-section" and len(key) < 2:
            continue
        if mut == "null" and channel == "argv":
            continue
        if key == ["rdef"] and mut != "null":
            continue  # (it has a default: leaving it out is legal)
        case = {"kind": "required", "sub": sub, "key": key, "mutation": mut, "channel": channel, "defaults": defaults}
        ctx.begin(case)
        one(case)
        ctx.mark_nontrivial_enumerated()
        if not ctx.end(raise_on_fail=False):
            return
    # the unmutated inputs are accepted (precondition of the family)
    for sub in ("fit", "eval"):
        for defaults in (True, False):
            if only is not None and (only["sub"], only["defaults"]) != (sub, defaults):
                continue
            if only is None:
                ctx.begin({"kind": "required", "sub": sub, "mutation": "none", "defaults": defaults})
            try:
                build().parse_object(copy.deepcopy(full[sub]), defaults=defaults)
                build().parse_args(argv_of(full[sub], sub), defaults=defaults)
            except Exception as ex:  # noqa
                ctx.finding("C06/required-family/complete-input-rejected", {"error": fmt_exc(ex), "sub": sub, "defaults": defaults})
            # an Any typed argument defines no nested keys either
            try:
                r = build().parse_args(["--anyarg.zq7=1"] + argv_of(full[sub], sub), defaults=defaults)
                ctx.finding("C06/nested-option-below-an-argument-without-nested-keys/accepted/any", {"result": short(r.anyarg, 100)})
            except ArgumentError:
                ctx.cls("nested-option-below-any:rej")
            except Exception as ex:  # noqa
                ctx.cls("escape (C03)")
            if only is None:
                ctx.end(raise_on_fail=False)


def body(ctx):
    def f(case):
        ctx.begin(case)
        ctx.evaluations -= 1  # evaluations are counted per (position, mutation, channel) below
        run_case(ctx, case)
        ctx.end()

    return f


def plan(tier):
    if tier == "quick":
        return [{"kind": "required"}] + [{"n": 120, "depth": 2} for _ in range(16)]
    return [{"kind": "required"}] + [{"n": 2500, "depth": 2 if i % 2 else 3} for i in range(16)]


def run_shard(spec, ctx):
    import warnings

    warnings.simplefilter("ignore")
    if spec.get("kind") == "required":
        return required_family(ctx)
    run_given(ctx, with_spellings(case_strategy(spec["depth"])), body(ctx), spec["n"])


def health(tier, evaluations, nontrivial, classes):
    msgs = []
    need = ["insert-foreign-key:top:object:rej", "insert-foreign-key:dc:string:rej", "insert-foreign-key:init_args:object:rej", "insert-foreign-key:spec:object:rej",
            "insert-foreign-key:group:option:rej", "insert-foreign-key:subcommand-section:object:rej", "remove-required-key:dc:object:rej", "null-required-key:init_args:object:rej",
            "insert-foreign-key:dc:environment:rej", "remove-required-subcommand:object:rej"]
    for c in need:
        if classes.get(c, 0) < 5:
            msgs.append(f"class {c} nearly absent ({classes.get(c, 0)})")
    return msgs


def self_test():
    from jsonargparse import ArgumentParser

    sh = ["list", ["dc", "D", [["fa", ["int"], False, None], ["fb", ["cls", "Base"], True, None]]]]
    v = [{"fa": 1, "fb": {"class_path": "vf.gen.fixtures.Holder", "init_args": {"inner": {"class_path": "vf.gen.fixtures.SubA", "init_args": {}}}}}]
    ps = list(positions(sh, v, ["x"]))
    assert [p[0] for p in ps] == [["x", 0], ["x", 0, "fb"], ["x", 0, "fb", "init_args"], ["x", 0, "fb", "init_args", "inner"], ["x", 0, "fb", "init_args", "inner", "init_args"]], ps
    assert ps[0][2] == ["fa"] and ps[2][2] == ["inner"]
    assert get_at({"a": [{"b": 1}]}, ["a", 0, "b"]) == 1 and mutate({"a": {}}, ["a"], lambda m: m.__setitem__("z", 1)) == {"a": {"z": 1}}

"""C08  Parse, validate, dump and instantiate never modify what they are given.

Domain   generated parsers (grammar G incl. containers nested in tuples/dicts, dataclasses, subclass specs with defaults) x accepted
         configurations and rejected inputs (a foreign key or an ill-typed value placed *last*, so that the call raises midway) x
         operations {parse_object(dict|Namespace), parse_args, parse_string, parse_env, validate, dump (3 formats, skip_default), save,
         merge_config, strip_unknown, instantiate_classes x2, get_defaults, format_help}.
Oracle   invariant by deep snapshot: before each call a recursive fingerprint (type, value and id() of every nested mutable
         container, so replacement *and* in-place edits are seen) of every argument, plus get_defaults(), cwd, environ,
         argparse.Namespace, sys.argv; after the call - normal or exceptional - all must be identical.  instantiate_classes twice:
         every class_path spec position yields two distinct objects and one construction each.
"""
import argparse
import copy
import os
import sys

from hypothesis import strategies as st

from ..core import fmt_exc, innermost_pkg_frame, run_given, with_spellings, short
from ..gen import fixtures
from ..gen import parsers as P
from ..gen import types as G
from . import _rt

ID = "C08"
LEVEL = "exploration"
ENGINE = "hypothesis"
TECHNIQUE = "property-based invariant testing: deep before/after snapshots (values and container identities) around every public operation, incl. calls that raise midway"
LEVEL_TEXT = ("For thousands of generated (parser, input) pairs every public operation is wrapped in a deep snapshot of its arguments and of "
              "the process/parser state; succeeding and failing calls alike must leave everything identical, and double instantiation must "
              "give distinct objects. Exploration bounded by the type grammar and the operation list.")
LEVEL_NOTE = ("Trusted: the fingerprint function (self-tested to see in-place edits inside tuples, replaced containers and type changes). "
              "Leaf objects are compared by type and repr. Threads and signal handlers are out of scope.")
RULE = ("case = (parser recipe, given values). Each case runs ~20 operations, each with before/after snapshots. non-trivial = the arguments "
        "contain a mutable container at depth >= 2 or inside a tuple, or a class spec, or at least one operation raised. distinct = hash of the case")
ASSUMPTIONS = [
    "objects returned by a call may share leaf values with the arguments; only the arguments and the parser/process state must be unchanged",
    "get_defaults() is compared by typed value, the parser's stored action defaults by deep fingerprint",
]
_ORIG_NS = argparse.Namespace


def fp(v, depth=0):
    """deep fingerprint: structure, leaf (type, repr) and identity of every mutable container"""
    from jsonargparse import Namespace

    if isinstance(v, Namespace):
        return ("ns", id(v), tuple((k, fp(x)) for k, x in vars(v).items()))
    if isinstance(v, dict):
        return ("dict", type(v).__name__, id(v), tuple((repr(k), fp(x)) for k, x in v.items()))
    if isinstance(v, list):
        return ("list", id(v), tuple(fp(x) for x in v))
    if isinstance(v, tuple):
        return ("tuple", tuple(fp(x) for x in v))
    if isinstance(v, (set, frozenset)):
        return ("set", id(v), tuple(sorted(repr(x) for x in v)))
    return (type(v).__name__, repr(v))


def value_fp(v):
    """fingerprint without identities (for objects that are legitimately rebuilt, e.g. get_defaults())"""
    from jsonargparse import Namespace

    if isinstance(v, Namespace):
        return ("ns", tuple((k, value_fp(x)) for k, x in vars(v).items()))
    if isinstance(v, dict):
        return ("dict", tuple((repr(k), value_fp(x)) for k, x in v.items()))
    if isinstance(v, (list, tuple)):
        return (type(v).__name__, tuple(value_fp(x) for x in v))
    if isinstance(v, (set, frozenset)):
        return ("set", tuple(sorted(repr(x) for x in v)))
    return (type(v).__name__, repr(v))


def where(a, b, path=""):
    """first difference between two fingerprints, human readable"""
    if a == b:
        return None
    if isinstance(a, tuple) and isinstance(b, tuple) and len(a) == len(b) and a and a[0] == b[0]:
        for i, (x, y) in enumerate(zip(a, b)):
            w = where(x, y, f"{path}/{a[0] if i else ''}{i}")
            if w:
                return w
    return f"{path}: {short(a, 120)} -> {short(b, 120)}"


class Watch:
    def __init__(self, ctx, p, case):
        self.ctx, self.p, self.case = ctx, p, case
        self.raised = 0

    def state(self, reuse=None):
        """reuse: the state observed right after the previous operation - what the parser declares has not been touched by anybody since
        (the harness only calls the parser through ``call``), so the expensive part is not computed a second time"""
        if reuse is not None:
            defaults, action_defaults = reuse["defaults"], reuse["action_defaults_all"]
        else:
            try:
                defaults = value_fp(self.p.get_defaults())
            except Exception as ex:  # noqa
                defaults = ("get_defaults raises", fmt_exc(ex))
            action_defaults = tuple((a.dest, fp(a.default)) for a in self.p._actions)
        return {
            "defaults": defaults,
            "action_defaults": action_defaults,
            "action_defaults_all": action_defaults,
            "cwd": os.getcwd(),
            "environ": dict(os.environ),
            "argparse.Namespace": argparse.Namespace is _ORIG_NS,
            "sys.argv": list(sys.argv),
        }

    def call(self, name, fn, *args):
        before_args = [fp(a) for a in args]
        before_state = self.state(reuse=getattr(self, "_after", None))
        outcome = "ok"
        result = None
        try:
            result = fn(*args)
        except SystemExit as ex:
            outcome = f"exit{ex.code}"
        except BaseException as ex:  # noqa
            outcome = "raised:" + type(ex).__name__
            self.raised += 1
        self.ctx.cls(f"op:{name}:{'ok' if outcome == 'ok' else 'raised'}")
        for i, (a, b) in enumerate(zip(before_args, [fp(a) for a in args])):
            if a != b:
                kind = classify_mutation(a, b)
                self.ctx.finding(f"C08/{name}/argument-{i}-modified/{kind}/{'call-succeeded' if outcome == 'ok' else 'call-raised'}",
                                 {"op": name, "outcome": outcome, "difference": where(a, b)})
        after_state = self.state()
        self._after = dict(after_state)
        before_state.pop("action_defaults_all"), after_state.pop("action_defaults_all")
        # parse_args may lazily *add* helper options (--print_shtab); only the defaults declared before the call are compared
        dests = {d for d, _ in before_state["action_defaults"]}
        after_state["action_defaults"] = tuple(x for x in after_state["action_defaults"] if x[0] in dests)
        for k in before_state:
            if before_state[k] != after_state[k]:
                self.ctx.finding(f"C08/{name}/{k}-changed/{'call-succeeded' if outcome == 'ok' else 'call-raised'}",
                                 {"op": name, "outcome": outcome, "difference": where(before_state[k], after_state[k]) if isinstance(before_state[k], tuple) else
                                  f"{short(before_state[k], 150)} -> {short(after_state[k], 150)}"})
        return outcome, result


def classify_mutation(a, b):
    """which kind of node changed first: value inside tuple, list replaced, ..."""
    w = where(a, b) or ""
    if "/tuple" in w:
        return "inside-tuple"
    return "in-place-or-replaced"


def invalid_variants(case):
    """inputs that are rejected late: a foreign key after all valid ones, an ill-typed value for the last given key"""
    obj = P.as_object(copy.deepcopy(case["values"]), case["subcommand"])
    bad1 = copy.deepcopy(obj)
    bad1["zq9"] = [1, {"a": [2]}]
    out = [("foreign-key-last", bad1)]
    shapes = P.all_shapes(case["recipe"])
    top = [n for n in case["values"] if "." not in n]
    if top:
        last = top[-1]
        bad2 = copy.deepcopy(obj)
        v = bad2.pop(last)
        bad2[last] = {"__bad__": [v]} if shapes[last][0] not in ("dict", "dc", "cls") else [[v]]
        out.append(("ill-typed-last", bad2))
    return out


def class_positions(cfg, path=""):
    """paths of class_path specs inside a configuration"""
    from jsonargparse import Namespace

    if isinstance(cfg, Namespace):
        if "class_path" in cfg:
            yield path
        for k, v in vars(cfg).items():
            yield from class_positions(v, f"{path}.{k}" if path else k)
    elif isinstance(cfg, dict):
        for k, v in cfg.items():
            yield from class_positions(v, f"{path}.{k}")
    elif isinstance(cfg, (list, tuple)):
        for i, v in enumerate(cfg):
            yield from class_positions(v, f"{path}[{i}]")


def objects_in(v, out=None):
    from jsonargparse import Namespace

    out = [] if out is None else out
    if isinstance(v, Namespace):
        for x in vars(v).values():
            objects_in(x, out)
    elif isinstance(v, dict):
        for x in v.values():
            objects_in(x, out)
    elif isinstance(v, (list, tuple)):
        for x in v:
            objects_in(x, out)
    elif isinstance(v, (fixtures.Base, fixtures.Holder)):
        out.append(v)
        for x in vars(v).values():
            objects_in(x, out)
    return out


def run_kinds_case(ctx, case):
    """the argument-kinds family (positionals, nargs, yes/no flags, Callable / Type hints ...; DESIGN 3.3b): the same isolation
    clauses for the objects handed to the parse / dump / validate methods and for the parser's declared defaults"""
    import json
    import warnings

    from ..gen import kinds as K

    warnings.simplefilter("ignore")
    recipe, values = case["recipe"], case["values"]
    p = K.build(recipe)
    w = Watch(ctx, p, case)
    obj = K.object_for(recipe, values)
    ctx.cls("kinds-case")
    if len(values) >= 2:
        ctx.mark_nontrivial()
    outcome, cfg = w.call("parse_object(dict)", p.parse_object, obj)

    def as_text(v):
        if isinstance(v, dict):
            return {k: as_text(x) for k, x in v.items()}
        if isinstance(v, list):
            return [as_text(x) for x in v]
        return v if isinstance(v, str) or v is None else json.dumps(v)

    # the same settings with every number / boolean spelled as text (what an environment or a loosely typed source hands over): they are
    # converted, in a copy
    w.call("parse_object(dict of texts)", p.parse_object, as_text(obj))
    w.call("parse_string", p.parse_string, json.dumps(obj, ensure_ascii=False))
    if K.expressible_on_argv(recipe, values):
        w.call("parse_args", p.parse_args, K.argv_for(recipe, values, case.get("layout", 0)))
    for dflt in (True, False):
        w.call(f"parse_object(dict, defaults={dflt})", lambda o, dflt=dflt: p.parse_object(o, defaults=dflt), obj)
    w.call("get_defaults", p.get_defaults)
    if outcome == "ok" and cfg is not None:
        w.call("validate", p.validate, cfg)
        w.call("dump", lambda c: p.dump(c, skip_none=False), cfg)
        w.call("parse_object(Namespace)", p.parse_object, cfg)
        w.call("instantiate_classes", p.instantiate_classes, cfg)
        # the result of a parse without merged defaults is the caller's: changing it must not reach the parser
        try:
            r = K.build(recipe)
            before = value_fp(r.get_defaults())
            res = r.parse_object(copy.deepcopy(obj), defaults=False)
            for _path, x in list(_iter_containers(res)):
                try:
                    x.append("MUTATED") if isinstance(x, list) else x.update({"MUTATED": 1}) if isinstance(x, dict) else None
                except Exception:  # noqa
                    pass
            after = value_fp(r.get_defaults())
            if after != before:
                ctx.finding("C08/kinds/result-of-a-parse-shares-containers-with-the-declared-defaults", {"difference": where(before, after)})
        except Exception:  # noqa
            pass
    ctx.sample()


def run_case(ctx, case):
    if case.get("kind") == "kinds":
        return run_kinds_case(ctx, case)
    with _rt.scratch_dir() as dcf:
        _run_case(ctx, case, dcf)


def _run_case(ctx, case, dcf):
    import json

    from jsonargparse import ArgumentError, Namespace, dict_to_namespace

    recipe = dict(case["recipe"], env=True)
    kw = {}
    if case.get("mode", 0) % 2 == 1 and not case["subcommand"]:
        # every second case: a default config file that overrides some declared defaults (a further source of parser state)
        try:
            doc = json.dumps(G.to_jsonable(P.nest(copy.deepcopy(case["values"]))), allow_nan=False)
            with open(os.path.join(dcf, "defaults.json"), "w") as f:
                f.write(doc)
            kw["default_config_files"] = [os.path.join(dcf, "defaults.json")]
            P.build(recipe, **kw).get_defaults()  # the file must be acceptable as a source of defaults
            ctx.cls("with-default-config-file")
        except Exception:  # noqa  (not expressible as JSON, or rejected through the file channel)
            kw = {}
            ctx.cls("default-config-file-not-usable")
    p = P.build(recipe, **kw)
    # every parser also gets a class-typed argument whose declared default is a spec *with* init_args (a declared default like any other)
    FXP = "vf.gen.fixtures."
    p.add_argument("--zcls", type=fixtures.Base, default={"class_path": FXP + "SubA", "init_args": {"p": 5, "q": "dq"}})
    # ... an Any typed argument and a small group of nested arguments (for objects that hold class specs in plain containers, dict_kwargs,
    # and a Namespace inside a dict)
    from typing import Any, Tuple

    p.add_argument("--zany", type=Any, default=None)
    p.add_argument("--zgrp.a", type=int, default=0)
    p.add_argument("--zgrp.t", type=Tuple[int, int], default=(0, 0))
    w = Watch(ctx, p, case)
    obj = P.as_object(copy.deepcopy(case["values"]), case["subcommand"])
    shapes = P.all_shapes(recipe)
    kinds = set().union(*[G.kinds_in(s) for s in shapes.values()])
    for k in kinds:
        ctx.cls("kind:" + k)

    outcome, cfg = w.call("parse_object(dict)", p.parse_object, obj)
    try:
        ns_in = dict_to_namespace(copy.deepcopy(obj))
    except Exception:  # noqa
        ns_in = None
    if ns_in is not None:
        w.call("parse_object(Namespace)", p.parse_object, ns_in)
    argv = _rt.argv_for(recipe, case["values"], case["subcommand"])
    if argv is not None:
        w.call("parse_args", p.parse_args, argv)
        env = {}
        for a in argv:
            if a.startswith("--") and "=" in a and not case["subcommand"]:
                k, v = a[2:].split("=", 1)
                env["VF_" + k.replace(".", "__").upper()] = v
        if env:
            w.call("parse_env", p.parse_env, env)
    for name, bad in invalid_variants(case):
        w.call(f"parse_object({name})", p.parse_object, bad)
        try:
            bad_ns = dict_to_namespace(copy.deepcopy(bad))
        except Exception:  # noqa
            bad_ns = None
        if bad_ns is not None and name == "foreign-key-last":
            w.call(f"parse_object(Namespace,{name})", p.parse_object, bad_ns)
    # another class than the default's, whose signature lacks the default's init_args - with and without the defaults merged in
    for dflt in (True, False):
        w.call(f"parse_object(class change of an argument with a default spec, defaults={dflt})",
               lambda o, dflt=dflt: p.parse_object(o, defaults=dflt), dict(copy.deepcopy(obj), zcls={"class_path": FXP + "SubB"}))
        w.call(f"parse_string(class change of an argument with a default spec, defaults={dflt})",
               lambda t, dflt=dflt: p.parse_string(t, defaults=dflt), json.dumps({"zcls": {"class_path": FXP + "SubB", "init_args": {"r": [0.5]}}}))
    spec_a = {"class_path": FXP + "SubA", "init_args": {"p": 1}}
    w.call("parse_object(class specs in the containers of an Any typed argument)", p.parse_object,
           dict(copy.deepcopy(obj), zany=[copy.deepcopy(spec_a), {"k": copy.deepcopy(spec_a)}, ({"class_path": FXP + "SubB"},)]))
    w.call("parse_object(dict_kwargs that name parameters of the class)", p.parse_object,
           dict(copy.deepcopy(obj), zcls={"class_path": FXP + "Loose", "dict_kwargs": {"p": 3, "extra": [1, {"a": 2}]}}))
    w.call("parse_object(dict that holds a Namespace)", p.parse_object, dict(copy.deepcopy(obj), zgrp=Namespace(a=1, t=[1, 2])))
    w.call("get_defaults", p.get_defaults)
    # the caller owns what get_defaults() returned: editing it must not reach the parser (checked on a parser of its own, so
    # that a leak cannot disturb the other observations of this case)
    p2 = P.build(recipe, **kw)
    d = p2.get_defaults()
    before = value_fp(d)
    for _path, x in list(_iter_containers(d)):
        try:
            x.append("MUTATED") if isinstance(x, list) else x.update({"MUTATED": 1}) if isinstance(x, dict) else None
        except Exception:  # noqa
            pass
    try:
        after = value_fp(p2.get_defaults())
    except Exception as ex:  # noqa
        after = ("get_defaults raises", fmt_exc(ex))
    ctx.cls("op:get_defaults(after caller mutated an earlier result)")
    if after != before:
        ctx.finding("C08/get_defaults/returned-object-shares-containers-with-the-parser" + ("/with-default-config-file" if kw else ""),
                    {"difference": where(before, after) if isinstance(after, tuple) and after[0] != "get_defaults raises" else short(after, 300)})
    w.call("format_help", p.format_help)

    if outcome == "ok" and cfg is not None:
        ctx.cls("accepted")
        w.call("validate", p.validate, cfg)
        for fmt in _rt.FORMATS:
            w.call(f"dump({fmt})", lambda c, fmt=fmt: p.dump(c, format=fmt, skip_none=False), cfg)
        w.call("dump(skip_default)", lambda c: p.dump(c, skip_default=True), cfg)
        with _rt.scratch_dir() as dd:
            w.call("save", lambda c: p.save(c, os.path.join(dd, "out.yaml"), overwrite=True), cfg)
        # a caller-supplied base / namespace (with and without the parser's defaults merged in) is an input like any other
        for dflt in (True, False):
            w.call(f"parse_object(cfg_base=Namespace, defaults={dflt})", lambda o, b, dflt=dflt: p.parse_object(o, cfg_base=b, defaults=dflt), obj, cfg.clone())
            w.call(f"parse_object(cfg_base=empty Namespace, defaults={dflt})", lambda o, b, dflt=dflt: p.parse_object(o, cfg_base=b, defaults=dflt), obj, Namespace())
            if argv is not None:
                w.call(f"parse_args(namespace=Namespace, defaults={dflt})", lambda a, b, dflt=dflt: p.parse_args(a, namespace=b, defaults=dflt), argv, cfg.clone())
                w.call(f"parse_args(namespace=empty Namespace, defaults={dflt})", lambda a, b, dflt=dflt: p.parse_args(a, namespace=b, defaults=dflt), argv, Namespace())
        other = p.get_defaults()
        w.call("merge_config(into empty)", p.merge_config, cfg, Namespace())
        w.call("merge_config", p.merge_config, cfg, other)
        w.call("merge_config(reversed)", p.merge_config, other, cfg)
        w.call("strip_unknown", p.strip_unknown, cfg)
        if "cls" in kinds:
            # both configurations hold a spec for the same argument but name different classes (init_args of one do not fit the other)
            alt = _alt_class_object(case)
            try:
                cfg_alt = P.build(recipe, **kw).parse_object(alt)
            except Exception:  # noqa
                cfg_alt = None
            if cfg_alt is not None:
                w.call("merge_config(class change)", p.merge_config, cfg_alt, cfg)
                w.call("merge_config(class change, reversed)", p.merge_config, cfg, cfg_alt)
        # a configuration that fails validation midway: last top-level key replaced by an unserialisable / invalid value
        broken = cfg.clone()
        keys = [k for k in broken.keys() if not k.startswith("cfg")]
        if keys:
            broken[keys[-1]] = object()
            w.call("validate(invalid)", p.validate, broken)
            w.call("dump(invalid)", p.dump, broken)
            with _rt.scratch_dir() as dd:
                w.call("save(invalid)", lambda c: p.save(c, os.path.join(dd, "out.yaml"), overwrite=True), broken)
        if "cls" in kinds:
            del fixtures.CALLS[:]
            o1, init1 = w.call("instantiate_classes", p.instantiate_classes, cfg)
            n1 = len(fixtures.CALLS)
            o2, init2 = w.call("instantiate_classes(second)", p.instantiate_classes, cfg)
            n2 = len(fixtures.CALLS) - n1
            if o1 == "ok" and o2 == "ok":
                a, b = objects_in(init1), objects_in(init2)
                ctx.cls("instantiated-objects", len(a))
                if len(a) != len(b) or n1 != n2:
                    ctx.finding("C08/instantiate_classes/second-call-builds-different-number-of-objects", {"first": len(a), "second": len(b), "calls": (n1, n2)})
                shared = [type(x).__name__ for x in a if any(x is y for y in b)]
                if shared:
                    ctx.finding("C08/instantiate_classes/object-shared-between-two-instantiations", {"classes": shared})
                if [type(x).__name__ for x in a] != [type(x).__name__ for x in b]:
                    ctx.finding("C08/instantiate_classes/second-call-builds-different-classes", {"first": [type(x).__name__ for x in a], "second": [type(x).__name__ for x in b]})
                elif [_state(x) for x in a] != [_state(x) for x in b]:
                    ctx.finding("C08/instantiate_classes/second-call-builds-objects-with-different-arguments", {"first": [_state(x) for x in a][:3], "second": [_state(x) for x in b][:3]})
    if w.raised or "cls" in kinds or any(_deep_mutable(v) for v in case["values"].values()):
        ctx.mark_nontrivial()
    ctx.sample()


def _alt_class_object(case):
    """the case's object with every fixture class spec switched to another class of the family (with init_args of its own)"""
    FX = "vf.gen.fixtures."
    swap = {FX + "SubA": {"class_path": FX + "SubB", "init_args": {"r": [1.5]}}, FX + "SubB": {"class_path": FX + "SubA", "init_args": {"q": "alt", "p": 7}},
            FX + "Base": {"class_path": FX + "SubA", "init_args": {"q": "alt"}}, FX + "SubReq": {"class_path": FX + "SubB", "init_args": {}}}

    def walk(v):
        if isinstance(v, dict):
            if v.get("class_path") in swap:
                return copy.deepcopy(swap[v["class_path"]])
            return {k: walk(x) for k, x in v.items()}
        if isinstance(v, list):
            return [walk(x) for x in v]
        return v

    return walk(P.as_object(copy.deepcopy(case["values"]), case["subcommand"]))


def _state(o):
    return {k: (type(v).__name__ if isinstance(v, (fixtures.Base, fixtures.Holder)) else repr(v)) for k, v in vars(o).items()}


def _iter_containers(v, path=""):
    from jsonargparse import Namespace

    if isinstance(v, Namespace):
        for k, x in vars(v).items():
            yield from _iter_containers(x, path + "." + k)
    elif isinstance(v, dict):
        yield path, v
        for k, x in list(v.items()):
            yield from _iter_containers(x, f"{path}.{k}")
    elif isinstance(v, list):
        yield path, v
        for i, x in enumerate(list(v)):
            yield from _iter_containers(x, f"{path}[{i}]")
    elif isinstance(v, tuple):
        for i, x in enumerate(v):
            yield from _iter_containers(x, f"{path}[{i}]")


def _deep_mutable(v, depth=0):
    if isinstance(v, (list, dict)):
        if depth >= 1:
            return True
        return any(_deep_mutable(x, depth + 1) for x in (v.values() if isinstance(v, dict) else v))
    return False


def body(ctx):
    def f(case):
        ctx.begin(case)
        run_case(ctx, case)
        ctx.end()

    return f


def plan(tier):
    if tier == "quick":
        return [{"n": 150, "depth": 2} for _ in range(16)]
    return [{"n": 3000, "depth": 2 if i % 2 else 3} for i in range(16)]


def run_shard(spec, ctx):
    from hypothesis import strategies as st

    from . import _kinds

    main = _rt.case_strategy(spec["depth"], special_share=1000)
    run_given(ctx, with_spellings(st.integers(0, 5).flatmap(lambda i: _kinds.case_strategy() if i == 0 else main)), body(ctx), spec["n"])


def health(tier, evaluations, nontrivial, classes):
    msgs = []
    for c in ("accepted", "with-default-config-file", "op:instantiate_classes(second):ok", "op:parse_object(foreign-key-last):raised", "op:dump(invalid):raised", "op:parse_env:ok", "kind:tuple"):
        if classes.get(c, 0) < 10:
            msgs.append(f"class {c} nearly absent ({classes.get(c, 0)})")
    return msgs


def self_test():
    a = (1, [(2, 3)])
    f0 = fp(a)
    a[1][0] = [2, 3]
    assert fp(a) != f0 and "tuple" in (where(f0, fp(a)) or "")
    lst = [[1, 2]]
    f0 = fp(lst)
    lst[0] = [1, 2]  # equal value, new object
    assert fp(lst) != f0
    lst2 = [1]
    f0 = fp(lst2)
    lst2[0] = 1.0
    assert fp(lst2) != f0
    d1, d2 = {"a": [1]}, {"a": [1]}
    assert fp(d1) != fp(d2)  # identities differ
    assert value_fp({"a": [1]}) == value_fp({"a": [1]})

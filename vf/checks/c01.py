"""C01  A dumped configuration re-parses to the same configuration.

Domain   parser recipes (1-3 typed arguments from grammar G incl. dataclasses, subclass specs, nested groups, one level of
         subcommands) x a configuration the parser *accepted* (object channel and, where every value has an unambiguous
         command line spelling, the argv channel - so that every look-alike string is reached as an accepted str).
Oracle   inverse: typed_eq(parse(serialise(cfg)), cfg) for dump in yaml/json/json_indented (skip_none=False), dump(skip_default),
         --print_config[=skip_default] written to a file and read back with --cfg (also as the second request on a parser object that
         already served one with other flags), and save()+parse_path().  dump/save always get
         a deep copy (isolation from C08).  Every differing leaf is classified on its own.
"""
import copy
import math
import os

from ..core import fmt_exc, innermost_pkg_frame, run_given, with_spellings, short
from ..gen import parsers as P
from ..gen import types as G
from . import _rt

ID = "C01"
LEVEL = "exploration"
ENGINE = "hypothesis (+ atheris/libFuzzer coverage guidance in 4 thorough shards)"
TECHNIQUE = "property-based round-trip testing (dump / print_config / save -> parse) over generated typed parsers and look-alike strings"
LEVEL_TEXT = ("Thousands of generated (parser, accepted configuration) pairs per run; each configuration is serialised in every dump "
              "format, through --print_config and through save, parsed back with the same parser and compared type for type. "
              "Strings are aimed at every YAML 1.1/1.2 implicit-resolver regex. One case in six comes from the argument-kinds family "
              "(positionals, nargs, yes/no flags, Callable / Type hints, choices; DESIGN 3.3b). Exploration only: the grammars and value sizes bound it.")
LEVEL_NOTE = ("Trusted: typed_eq/diff in vf/gen/types.py (self-tested). Known findings F2 (PyYAML is not a JSON superset for some code "
              "points), F3 (Infinity/NaN in json dumps) and F23 (quoted YAML-null look-alike under Optional[non-str]) are recorded in "
              "known_findings.json by narrow signatures; code points of F2 live in a separate, counted stratum.")
RULE = ("case = (parser recipe, given values, channel). non-trivial = at least one given value and (a look-alike/special string leaf, or "
        "nesting >= 2, or an int-keyed dict, or an enum/registered/restricted/subclass/dataclass/tuple/set leaf). distinct = hash of the case")
ASSUMPTIONS = [
    "equality is typed_eq: same type at every node, same key order; -0.0 == 0.0 and NaN == NaN are not distinguished further",
    "inputs rejected by the parser are not configurations 'the parser has accepted' and are skipped (counted)",
    "the config bookkeeping key (cfg) and meta keys (__path__ ...) are removed on both sides before comparing",
]


def classify(case, fmt, step, path, a, b, err=None):
    """narrow, input-anchored signatures for the recorded findings; everything else stays unclassified"""
    def strs(v):
        return [x for _p, x in _rt.leaves(v) if isinstance(x, str)] if not isinstance(v, str) else [v]

    nulls = ("null", "Null", "NULL", "~", "")
    import enum

    if isinstance(a, enum.Enum) and a.name in nulls and b is None:
        return "C01/F23/yaml-null-lookalike-str-vs-None-under-None-admitting-type"
    if (a is None and isinstance(b, str) and b in nulls) or (b is None and isinstance(a, str) and a in nulls):
        return "C01/F23/yaml-null-lookalike-str-vs-None-under-None-admitting-type"
    if any(G.is_special_text(s) for s in strs(a)):
        return "C01/F2/str-with-char-that-PyYAML-does-not-read-back"
    if any(isinstance(x, float) and not math.isfinite(x) for _p, x in _rt.leaves(a)) and fmt.startswith("json"):
        return "C01/F3/non-finite-float-in-json-dump"
    return None


def compare(ctx, case, fmt, step, orig, back):
    d = G.diff(back, orig, limit=6)
    for path, got, want in d:
        if path.endswith("<key order>") and "skip_default" in step:
            # a value that *equals* its default is left out by skip_default and comes back as the default: python's dict equality does
            # not look at the order of the keys, so the default's order is what returns (counted, not a difference of values)
            ctx.cls("skip_default: value equal to the default but with another key order comes back in the default's order")
            continue
        sig = classify(case, fmt, step, path, want, got) or f"C01/{step}/{fmt}/differs:{type(want).__name__}->{type(got).__name__}"
        ctx.finding(sig, {"step": step, "format": fmt, "path": path, "original": repr(want)[:200], "reparsed": repr(got)[:200]})
    return not [x for x in d if not (x[0].endswith("<key order>") and "skip_default" in step)]


def reparse_error(ctx, case, fmt, step, cfg, text, ex):
    sig = classify(case, fmt, step, "", cfg, None, ex) or f"C01/{step}/{fmt}/reparse-raises:{type(ex).__name__}"
    ctx.finding(sig, {"step": step, "format": fmt, "error": fmt_exc(ex), "text": short(text, 400)})


def run_case(ctx, case):
    from jsonargparse import ArgumentError

    if case.get("kind") == "kinds":
        from . import _kinds

        return _kinds.run(ctx, case, "C01")
    for k in set().union(*[G.kinds_in(s) for s in P.all_shapes(case["recipe"]).values()]):
        ctx.cls("kind:" + k)
    p, cfgs = _rt.accepted_configs(ctx, case)
    if not cfgs:
        ctx.cls("no-accepted-config")
        return
    for channel, cfg, argv in cfgs:
        ctx.cls("accepted:" + channel)
        base = _rt.clean(cfg)
        if _rt.nontrivial(case, base):
            ctx.mark_nontrivial((case["recipe"], case["values"], channel))
        for fmt in _rt.FORMATS:
            for skip_default in (False, True):
                step = "dump(skip_default)" if skip_default else "dump"
                try:
                    text = p.dump(copy.deepcopy(cfg), format=fmt, skip_none=False, skip_default=skip_default)
                except Exception as ex:  # noqa
                    sig = classify(case, fmt, step, "", base, None, ex) or f"C01/{step}/{fmt}/dump-raises:{type(ex).__name__}@{innermost_pkg_frame(ex)}"
                    ctx.finding(sig, {"step": step, "error": fmt_exc(ex), "cfg": repr(base)[:300]})
                    continue
                try:
                    back = p.parse_string(text)
                except (ArgumentError, Exception) as ex:  # noqa
                    reparse_error(ctx, case, fmt, step, base, text, ex)
                    continue
                compare(ctx, case, fmt, step, base, _rt.clean(back))
        mode = case.get("mode", 0)
        if mode in (1, 2, 5, 6, 7) and argv is not None:
            flag = "--print_config=skip_default" if mode in (2, 7) else "--print_config"
            pp = P.build(case["recipe"])
            if mode in (5, 6, 7):
                # an earlier request with other flags on the same parser object must not colour this one
                _rt.capture_print_config(pp, argv, "--print_config=skip_null" if mode in (5, 7) else "--print_config=skip_default")
                ctx.cls("print_config-after-an-earlier-request-with-other-flags")
            code, text = _rt.capture_print_config(pp, argv, flag)
            ctx.cls("print_config")
            if code != 0:
                ctx.finding(f"C01/{flag}/exit-code-{code}", {"argv": argv, "stdout": short(text, 300)})
            else:
                with _rt.scratch_dir() as d:
                    f = os.path.join(d, "printed.yaml")
                    with open(f, "w") as fh:
                        fh.write(text)
                    try:
                        back = p.parse_args(["--cfg", f])
                    except Exception as ex:  # noqa
                        reparse_error(ctx, case, "yaml", flag, base, text, ex)
                    else:
                        compare(ctx, case, "yaml", flag, base, _rt.clean(back))
        if mode in (3, 4):
            ctx.cls("save")
            with _rt.scratch_dir() as d:
                f = os.path.join(d, "saved.json" if mode == 4 else "saved.yaml")
                fmt = "json" if mode == 4 else "yaml"
                try:
                    p.save(copy.deepcopy(cfg), f, format=fmt, skip_none=False)
                except Exception as ex:  # noqa
                    sig = classify(case, fmt, "save", "", base, None, ex) or f"C01/save/{fmt}/raises:{type(ex).__name__}@{innermost_pkg_frame(ex)}"
                    ctx.finding(sig, {"error": fmt_exc(ex)})
                else:
                    try:
                        back = p.parse_path(f)
                    except Exception as ex:  # noqa
                        reparse_error(ctx, case, fmt, "save", base, open(f).read(), ex)
                    else:
                        compare(ctx, case, fmt, "save", base, _rt.clean(back))
    if case["special"]:
        ctx.cls("stratum:special-chars")
    ctx.sample()


def body(ctx):
    def f(case):
        ctx.begin(case)
        run_case(ctx, case)
        ctx.end()

    return f


def plan(tier):
    if tier == "quick":
        return [{"n": 400, "depth": 2} for _ in range(16)]
    # thorough: 12 shards of plain generated search + 4 in which libFuzzer's coverage feedback (atheris) steers the same generator
    return [{"n": 4000, "depth": 2 if i % 2 else 3} for i in range(12)] + [{"kind": "atheris", "n": 6000, "depth": 2} for _ in range(4)]


def run_shard(spec, ctx):
    from hypothesis import strategies as st

    from . import _kinds

    main = _rt.case_strategy(spec["depth"])
    strategy = with_spellings(st.integers(0, 5).flatmap(lambda i: _kinds.case_strategy() if i == 0 else main))
    if spec.get("kind") == "atheris":
        from ..core import run_atheris

        ctx.cls("engine:atheris")
        return run_atheris(ctx, strategy, body(ctx), spec["n"], flush_every=500)
    run_given(ctx, strategy, body(ctx), spec["n"])


def health(tier, evaluations, nontrivial, classes):
    msgs = []
    if classes.get("accepted:object", 0) < 0.5 * evaluations:
        msgs.append(f"too few accepted object inputs: {classes.get('accepted:object', 0)}/{evaluations}")
    if classes.get("accepted:argv", 0) < 0.2 * evaluations:
        msgs.append(f"too few accepted argv inputs: {classes.get('accepted:argv', 0)}/{evaluations}")
    for c in ("print_config", "save", "kind:cls", "kind:dc", "kind:str"):
        if classes.get(c, 0) < 10:
            msgs.append(f"class {c} nearly absent")
    return msgs


def self_test():
    from jsonargparse import Namespace

    assert G.diff(Namespace(a="1e3"), Namespace(a=1000.0)) and not G.diff(Namespace(a=(1, [2])), Namespace(a=(1, [2])))
    assert G.diff({"a": 1, "b": 2}, {"b": 2, "a": 1}) and G.diff([1], (1,))
    assert list(_rt.leaves(Namespace(a={"k": [1, "x"]}))) == [("a<key>", "k"), ("a.k[0]", 1), ("a.k[1]", "x")]

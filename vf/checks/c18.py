"""C18  save never destroys data: all-or-nothing on failure, no silent overwrite.

Domain   generated configurations of a parser with scalar, dict, dataclass-group, Any and a registered-type argument, loaded through a
         main config that pulls the group / dict from 0-2 separate sub-files (so __path__ metas exist) x {single file, multi file} x
         overwrite on/off x pre-existing target and sub-files with arbitrary content x the target named eight ways (absolute, relative,
         with '..', below ~, file:// URL, pathlib, jsonargparse Path) x sub-files referenced by bare name / with a directory / absolutely
         x configuration modified between load and save x **a fault injected at each step of the save**
         (enumerated per scenario): validation failure at each key, serialisation failure at each serialisable position (an
         unserialisable object under Any; a registered type whose serializer raises on its n-th call), and - through a harness-owned
         wrapper around builtins.open that is active only below the scratch directory - failure of each open-for-write.
Oracle   directory snapshot (names, sizes, sha256) before / after: without overwrite no pre-existing file ever differs; when the save
         fails because the configuration is invalid or unserialisable the snapshot is identical; an existing target without overwrite is
         refused; on success parse_path(saved) from another working directory is typed-equal to the configuration.
"""
import builtins
import contextlib
import copy
import hashlib
import json
import os

from hypothesis import strategies as st

from ..core import HarnessError, fmt_exc, run_given, short
from ..gen import types as G
from . import _rt

ID = "C18"
LEVEL = "fault_enumeration"
ENGINE = "hypothesis + per-scenario fault enumeration"
TECHNIQUE = "fault-injection testing: for each generated save scenario every validation / serialisation / open-for-write fault point is enumerated and the directory is snapshotted before and after"
LEVEL_TEXT = ("Each generated scenario (configuration, single/multi file, overwrite flag, pre-existing files) is saved once without fault and once "
              "per fault point - every key made invalid, every serialisable value made unserialisable (n-th serializer call), every open-for-write "
              "made to fail - with a content snapshot of the target directory around each save. Exploration over scenarios, complete over the "
              "fault points of each scenario.")
LEVEL_NOTE = ("Trusted: the directory snapshot, the open() wrapper (only paths below the scratch directory, only write modes) and the failing "
              "serializer. Real crashes between write and close are not modelled (no durability claim in the statement). Partial output when the "
              "failure is an I/O error is outside the statement and only the no-overwrite clause is asserted there; a save that is *refused* because a file "
              "exists (target or sub-file, no fault injected) must leave the directory as it was (title: all-or-nothing on failure).")
RULE = ("case = save scenario; one evaluation per (scenario, fault point). non-trivial = a fault point other than 'none', or a multi-file save with at "
        "least one sub-file, or a pre-existing file in the target directory. distinct = hash of (scenario, fault point)")
ASSUMPTIONS = [
    "save_path_content (copying referenced data files) is an explicit extra feature and is exercised in a separate, counted sub-scenario",
]


class Boom:
    """a registered type whose serializer can be told to fail on its n-th call (fault injection)"""

    def __init__(self, v):
        self.v = str(v)

    def __eq__(self, other):
        return isinstance(other, Boom) and other.v == self.v

    def __repr__(self):
        return f"Boom({self.v!r})"


SER = {"count": 0, "fail_at": None}


def boom_serializer(b):
    SER["count"] += 1
    if SER["fail_at"] is not None and SER["count"] == SER["fail_at"]:
        raise ValueError("injected serializer failure")
    return "boom:" + b.v


def boom_deserializer(s):
    if isinstance(s, Boom):
        return s
    if not isinstance(s, str) or not s.startswith("boom:"):
        raise ValueError("not a boom")
    return Boom(s[5:])


_REGISTERED = [False]


def build():
    import dataclasses
    from typing import Any, Dict, List, Optional

    from jsonargparse import ArgumentParser
    from jsonargparse.typing import register_type

    if not _REGISTERED[0]:
        register_type(Boom, boom_serializer, boom_deserializer)
        _REGISTERED[0] = True

    global Grp

    @dataclasses.dataclass
    class Grp:
        x: int = 1
        name: str = "n"
        b: Optional[Boom] = None

    Grp.__module__ = __name__
    p = ArgumentParser(exit_on_error=False)
    p.add_argument("--cfg", action="config")
    p.add_argument("--a", type=int, default=0)
    p.add_argument("--s", type=str, default="s")
    p.add_argument("--l", type=List[int], default=[])
    p.add_argument("--d", type=Dict[str, int], enable_path=True, default={})
    p.add_argument("--g", type=Grp, default=Grp())
    p.add_argument("--any", type=Any, default=None)
    p.add_argument("--t", type=Optional[Boom], default=None)
    from jsonargparse.typing import Path_fr

    p.add_argument("--pf", type=Optional[Path_fr], default=None)
    p.save_path_content.add("pf")  # multi-file save copies the content of this file next to the saved config
    return p


@G._memo
def scenario():
    return st.fixed_dictionaries({
        "a": st.integers(0, 9), "s": st.sampled_from(["x", "1e3", "null", "a b", ""]), "l": st.lists(st.integers(0, 9), max_size=2),
        "d": st.dictionaries(st.sampled_from(["p", "q"]), st.integers(0, 9), max_size=2), "g": st.fixed_dictionaries({"x": st.integers(0, 9), "name": st.sampled_from(["n", "m"])}),
        "g_boom": st.booleans(), "t": st.booleans(), "any": st.sampled_from([None, 1, [1, {"k": 2}], "txt"]),
        "d_from_file": st.booleans(), "g_from_file": st.booleans(), "sub_ext": st.sampled_from([".yaml", ".json"]),
        "multifile": st.booleans(), "overwrite": st.booleans(), "format": st.sampled_from(["yaml", "json", "parser_mode"]),
        "pre_target": st.one_of(st.none(), st.sampled_from(["", "old: content\n", "\x00binary\xff"])),
        "pre_sub": st.one_of(st.none(), st.sampled_from(["", "previous sub file\n"])),
        "pre_sub_which": st.sampled_from(["both", "both", "dsub", "gsub"]),  # which of the two sub-file names already exists in the target directory
        "pre_other": st.booleans(),
        "pf": st.booleans(), "pre_pf": st.one_of(st.none(), st.just("older vocab\n")),
        # how the caller spells the target (all name the same file), how the main config refers to its sub-files, and whether the
        # configuration is modified between load and save (so that a saved file that still points at the *input* files is seen)
        "target_spelling": st.sampled_from(["abs", "abs", "rel", "dotdot", "tilde", "file-url", "pathlib", "jpath"]),
        "sub_ref": st.sampled_from(["bare", "bare", "dir", "abs"]), "modify": st.booleans(),
    })


def spell(target, how, src, out):
    """the same target file named the way a caller might: relative to the working directory, with a redundant '..', below ~ (HOME is
    pointed at the target directory for the duration of the save), as a file:// URL, as pathlib / jsonargparse Path objects"""
    import pathlib

    base = os.path.basename(target)
    if how == "rel":
        return os.path.relpath(target, src)
    if how == "dotdot":
        return os.path.join(out, "elsewhere", "..", base)
    if how == "tilde":
        return "~/" + base
    if how == "file-url":
        return "file://" + target
    if how == "pathlib":
        return pathlib.Path(target)
    if how == "jpath":
        from jsonargparse import Path

        return Path(target, mode="fc")
    return target


def snapshot(d):
    out = {}
    for root, _dirs, files in os.walk(d):
        for f in files:
            p = os.path.join(root, f)
            with open(p, "rb") as fh:
                data = fh.read()
            out[os.path.relpath(p, d)] = (len(data), hashlib.sha256(data).hexdigest())
    return out


class OpenFault:
    """fail the k-th open-for-write below ``root`` (k counted from 1); counts how many happened"""

    def __init__(self, root, fail_at):
        self.root, self.fail_at, self.count = os.path.realpath(root), fail_at, 0
        self.real = builtins.open

    def __call__(self, file, mode="r", *a, **kw):
        try:
            path = os.path.realpath(os.fspath(file))
        except TypeError:
            return self.real(file, mode, *a, **kw)
        if path.startswith(self.root + os.sep) and any(c in mode for c in "wax+"):
            self.count += 1
            if self.fail_at is not None and self.count == self.fail_at:
                raise OSError(28, "injected: no space left on device", path)
        return self.real(file, mode, *a, **kw)


def load_cfg(sc, src):
    """write the source files into ``src`` and parse them (gives a configuration with __path__ metas for the sub-files)"""
    main = {"a": sc["a"], "s": sc["s"], "l": sc["l"], "any": sc["any"]}
    g = dict(sc["g"])
    if sc["g_boom"]:
        g["b"] = "boom:inner"
    if sc["t"]:
        main["t"] = "boom:top"
    ext = sc["sub_ext"]
    ref = sc.get("sub_ref", "bare")
    sub_dir = src if ref == "bare" else os.path.join(src, "parts")
    os.makedirs(sub_dir, exist_ok=True)

    def refer(name):
        return {"bare": name, "dir": os.path.join("parts", name), "abs": os.path.join(sub_dir, name)}[ref]

    if sc["d_from_file"]:
        with open(os.path.join(sub_dir, "dsub" + ext), "w") as f:
            json.dump(sc["d"], f)
        main["d"] = refer("dsub" + ext)
    else:
        main["d"] = sc["d"]
    if sc["g_from_file"]:
        with open(os.path.join(sub_dir, "gsub" + ext), "w") as f:
            json.dump(g, f)
        main["g"] = refer("gsub" + ext)
    else:
        main["g"] = g
    if sc.get("pf"):
        with open(os.path.join(sub_dir, "vocab.txt"), "w") as f:
            f.write("w1\nw2\n")
        main["pf"] = refer("vocab.txt")
    with open(os.path.join(src, "main.yaml"), "w") as f:
        json.dump(main, f)
    p = build()
    cfg = p.parse_args(["--cfg", os.path.join(src, "main.yaml")])
    if sc.get("modify"):
        cfg["a"] = cfg["a"] + 10
        cfg["g"]["x"] = cfg["g"]["x"] + 10
        cfg["d"]["zz"] = 5
    return p, cfg


def fault_points(sc, cfg):
    pts = [("none", None)]
    for key in ("a", "s", "l", "d", "g.x", "g.name", "t"):
        pts.append(("invalid", key))
    pts.append(("unserialisable-any", None))
    n_boom = int(sc["t"]) + int(sc["g_boom"])
    for n in range(1, 2 * n_boom + 2):
        pts.append(("serializer-fails-on-call", n))
    if sc.get("pf") and sc["multifile"]:
        pts.append(("binary-path-content", None))  # the file whose content is to be copied cannot be read as text: nothing can be serialised
    n_writes = 1 + (int(sc["d_from_file"]) + int(sc["g_from_file"]) + int(bool(sc.get("pf"))) if sc["multifile"] else 0)
    for k in range(1, n_writes + 1):
        pts.append(("open-for-write-fails", k))
    return pts


def apply_fault(cfg, kind, arg):
    cfg = cfg.clone()
    if kind == "invalid":
        bad = {"a": "not-an-int", "s": ["not", "a", "str"], "l": "not-a-list", "d": 5, "g.x": "not-an-int", "g.name": [1], "t": 12345}[arg]
        meta = cfg.get(arg.split(".")[0])
        cfg[arg] = bad
    elif kind == "unserialisable-any":
        cfg["any"] = {"k": [1, object()]}
    return cfg


def run_case(ctx, sc):
    import warnings

    from jsonargparse import ArgumentError

    warnings.simplefilter("ignore")
    with _rt.scratch_dir() as top:
        top = os.path.realpath(top)
        src = os.path.join(top, "src")
        os.mkdir(src)
        old_cwd = os.getcwd()
        try:
            p, cfg0 = load_cfg(sc, src)
        except Exception as ex:  # noqa
            ctx.cls("scenario-not-loadable:" + type(ex).__name__)
            return
        ctx.evaluations -= 1
        for kind, arg in fault_points(sc, cfg0):
            ctx.evaluations += 1
            out = os.path.join(top, f"out_{kind}_{arg}")
            os.mkdir(out)
            os.mkdir(os.path.join(out, "elsewhere"))
            target = os.path.join(out, "saved" + (".json" if sc["format"] == "json" else ".yaml"))
            if sc["pre_target"] is not None:
                with open(target, "w", encoding="latin-1") as f:
                    f.write(sc["pre_target"])
            if sc["pre_sub"] is not None:
                for name in ("dsub", "gsub"):
                    if sc.get("pre_sub_which", "both") in ("both", name):
                        with open(os.path.join(out, name + sc["sub_ext"]), "w") as f:
                            f.write(sc["pre_sub"])
            if sc.get("pre_pf") is not None:
                with open(os.path.join(out, "vocab.txt"), "w") as f:
                    f.write(sc["pre_pf"])
            if sc["pre_other"]:
                with open(os.path.join(out, "unrelated.txt"), "w") as f:
                    f.write("keep me")
            vocab_src = os.path.join(src if sc.get("sub_ref", "bare") == "bare" else os.path.join(src, "parts"), "vocab.txt")
            if kind == "binary-path-content":
                with open(vocab_src, "wb") as f:
                    f.write(b"\xff\xfe\x00binary\x80")
            before = snapshot(out)
            cfg = apply_fault(cfg0, kind, arg)
            SER["count"], SER["fail_at"] = 0, (arg if kind == "serializer-fails-on-call" else None)
            wrapper = OpenFault(out, arg if kind == "open-for-write-fails" else None)
            builtins.open = wrapper
            os.chdir(src)  # relative metas were loaded from here; save must not depend on it, but stay neutral
            old_home = os.environ.get("HOME")
            os.environ["HOME"] = out
            try:
                try:
                    spelled = spell(target, sc.get("target_spelling", "abs"), src, out)
                    ctx.cls("target-spelling:" + sc.get("target_spelling", "abs"))
                    p.save(cfg, spelled, format=sc["format"], multifile=sc["multifile"], overwrite=sc["overwrite"])
                    outcome = "saved"
                except Exception as ex:  # noqa
                    outcome, err = "failed:" + type(ex).__name__, fmt_exc(ex)
            finally:
                builtins.open = wrapper.real
                SER["fail_at"] = None
                os.chdir(old_cwd)
                if kind == "binary-path-content":
                    with open(vocab_src, "w") as f:
                        f.write("w1\nw2\n")
                if old_home is None:
                    os.environ.pop("HOME", None)
                else:
                    os.environ["HOME"] = old_home
            after = snapshot(out)
            label = kind if kind != "invalid" else "invalid"
            ctx.cls(f"fault:{label}:{outcome.split(':')[0]}")
            ctx.cls("multifile" if sc["multifile"] else "singlefile")
            nontrivial = kind != "none" or (sc["multifile"] and (sc["d_from_file"] or sc["g_from_file"])) or bool(before)
            if nontrivial:
                ctx.mark_nontrivial((sc, kind, arg))
            changed = sorted(k for k in set(before) | set(after) if before.get(k) != after.get(k))
            pre_changed = [k for k in changed if k in before]
            where = f"{'multi' if sc['multifile'] else 'single'}file"
            det = {"fault": [kind, arg], "outcome": outcome, "changed": changed, "overwrite": sc["overwrite"], "target_spelling": sc.get("target_spelling", "abs"), "sub_ref": sc.get("sub_ref", "bare")}
            # 1. never modify an existing file unless overwrite is requested
            if not sc["overwrite"] and pre_changed:
                ctx.finding(f"C18/existing-file-modified-without-overwrite/{where}/{kind}", det)
            # 2. an existing target without overwrite is refused
            if not sc["overwrite"] and sc["pre_target"] is not None and outcome == "saved":
                ctx.finding(f"C18/existing-target-not-refused/{where}", det)
            # 2b. a save that is refused because a file exists (no fault injected) is all-or-nothing as well: nothing has been created
            if kind == "none" and not sc["overwrite"] and outcome != "saved" and before and changed and "Refusing to overwrite" in err:
                ctx.finding(f"C18/refused-save-left-files-{'truncated-or-changed' if pre_changed else 'created'}/{where}", det)
            # 3. all-or-nothing when the configuration is invalid or cannot be serialised
            config_fault = kind in ("invalid", "unserialisable-any", "binary-path-content") or (kind == "serializer-fails-on-call" and SER["count"] >= arg)
            if config_fault and kind == "serializer-fails-on-call" and outcome == "saved":
                config_fault = False  # the n-th call never happened during this save
            if config_fault:
                if outcome == "saved":
                    if kind == "invalid" and arg == "t" and not sc["t"]:
                        pass
                    ctx.finding(f"C18/save-of-{'invalid' if kind == 'invalid' else 'unserialisable'}-configuration-succeeds/{where}/{arg if kind == 'invalid' else kind}", det)
                elif changed:
                    what = "truncated-or-changed" if pre_changed else "created"
                    ctx.finding(f"C18/failed-save-left-files-{what}/{where}/{kind}", det)
            # 4. success: the saved path re-parses to the configuration
            if outcome == "saved" and sc.get("pf") and not sc["multifile"]:
                ctx.exclude("single-file save keeps the relative spelling of a path argument: re-parse from the new location not applicable")
            elif outcome == "saved" and kind in ("none", "serializer-fails-on-call", "open-for-write-fails"):
                os.chdir(os.path.join(out, "elsewhere"))
                try:
                    back = build().parse_path(target)
                    b2, c2 = _rt.clean(back), _rt.clean(cfg0)
                    if sc.get("pf"):  # the copied file is a different file with the same content
                        if b2.pf is None or b2.pf.get_content() != c2.pf.get_content():
                            ctx.finding("C18/copied-path-content-differs", {"got": repr(b2.pf)})
                        b2.pop("pf"), c2.pop("pf")
                    d = G.diff(b2, c2, limit=3)
                    if d:
                        ctx.finding(f"C18/saved-config-re-parses-differently/{where}", {"diff": short(d, 300), "files": sorted(after)})
                except Exception as ex:  # noqa
                    ctx.finding(f"C18/saved-config-does-not-re-parse/{where}:{type(ex).__name__}", {"error": fmt_exc(ex), "files": sorted(after)})
                finally:
                    os.chdir(old_cwd)
                if sc["multifile"]:
                    expect_sub = [n + sc["sub_ext"] for n, used in (("dsub", sc["d_from_file"]), ("gsub", sc["g_from_file"])) if used]
                    missing = [n for n in expect_sub if n not in after]
                    if missing:
                        ctx.finding("C18/multifile-save-did-not-write-sub-file", {"missing": missing, "files": sorted(after)})
            if kind == "none" and outcome != "saved" and not (sc["pre_target"] is not None and not sc["overwrite"]) and not (
                    sc["multifile"] and sc.get("pf") and sc.get("pre_pf") is not None and not sc["overwrite"]) and not (
                    sc["multifile"] and sc["pre_sub"] is not None and not sc["overwrite"] and (sc["d_from_file"] or sc["g_from_file"])):
                # not a violation of the statement (nothing is destroyed, the last clause is conditional on success): counted only.
                # Observed on this tree: multi-file save raises TypeError / RepresenterError when a sub-file section holds a value of a
                # registered type (F44, recorded in DESIGN.md): sub-file sections are dumped without serialising their values.
                ctx.cls(f"valid-save-raises ({where}; outside the statement): {outcome}")
        # saving next to the originals with overwrite: every file that is "replaced" is replaced by its own content, nothing is lost
        if sc["multifile"] and sc["overwrite"] and (sc.get("pf") or sc["d_from_file"] or sc["g_from_file"]) and not sc.get("modify"):
            ctx.evaluations += 1
            ctx.cls("save-into-the-source-directory")
            sub_dir = src if sc.get("sub_ref", "bare") == "bare" else os.path.join(src, "parts")
            before = snapshot(sub_dir)
            os.chdir(sub_dir)
            try:
                p.save(cfg0, os.path.join(sub_dir, "saved_here.yaml"), format="yaml", multifile=True, overwrite=True)
                outcome = "saved"
            except Exception as ex:  # noqa
                outcome = "failed:" + type(ex).__name__
            finally:
                os.chdir(old_cwd)
            after = snapshot(sub_dir)
            if sc.get("pf") and after.get("vocab.txt") != before.get("vocab.txt"):
                ctx.finding("C18/save-next-to-the-originals-destroys-the-copied-file", {"outcome": outcome, "before": before.get("vocab.txt"), "after": after.get("vocab.txt")})
            if outcome == "saved":
                try:
                    os.chdir(top)
                    back = build().parse_path(os.path.join(sub_dir, "saved_here.yaml"))
                    b2, c2 = _rt.clean(back), _rt.clean(cfg0)
                    if sc.get("pf"):
                        if b2.pf is None or b2.pf.get_content() != "w1\nw2\n":
                            ctx.finding("C18/copied-path-content-differs", {"got": repr(b2.pf), "where": "saved next to the originals"})
                        b2.pop("pf"), c2.pop("pf")
                    d = G.diff(b2, c2, limit=3)
                    if d:
                        ctx.finding("C18/saved-config-re-parses-differently/multifile", {"diff": short(d, 300), "where": "saved next to the originals"})
                except Exception as ex:  # noqa
                    ctx.finding(f"C18/saved-config-does-not-re-parse/multifile:{type(ex).__name__}", {"error": fmt_exc(ex), "where": "saved next to the originals"})
                finally:
                    os.chdir(old_cwd)
        ctx.sample()


def body(ctx):
    def f(case):
        ctx.begin(case)
        run_case(ctx, case)
        ctx.end()

    return f


def plan(tier):
    if tier == "quick":
        return [{"n": 200} for _ in range(16)]
    return [{"n": 1500} for _ in range(16)]


def run_shard(spec, ctx):
    run_given(ctx, scenario(), body(ctx), spec["n"])


def health(tier, evaluations, nontrivial, classes):
    msgs = []
    for c in ("fault:none:saved", "fault:invalid:failed", "fault:unserialisable-any:failed", "fault:serializer-fails-on-call:failed", "fault:open-for-write-fails:failed", "multifile", "singlefile"):
        if classes.get(c, 0) < 10:
            msgs.append(f"class {c} nearly absent ({classes.get(c, 0)})")
    return msgs


def self_test():
    import tempfile

    with _rt.scratch_dir() as d:
        with open(os.path.join(d, "f"), "w") as f:
            f.write("abc")
        s1 = snapshot(d)
        with open(os.path.join(d, "f"), "w") as f:
            pass
        assert snapshot(d) != s1 and snapshot(d)["f"][0] == 0
        w = OpenFault(d, 1)
        try:
            w(os.path.join(d, "g"), "w")
            raise HarnessError("open wrapper did not fail")
        except OSError:
            pass
        assert w(os.path.join(d, "f"), "r").read() == "" and w.count == 1

"""C03  Every parse failure surfaces as ArgumentError or exit status 2, nothing else.

Domain   six hand-built parser shapes (flat typed; groups+dataclass; subclass / list of subclass / nested subclass; Callable, Type,
         Literal, paths, restricted; two levels of subcommands with a config argument at each level; links) x command lines from a
         grammar of known / unknown / malformed option names and well- / ill-formed values (DESIGN 3.6) x exit_on_error in {False, True};
         the same generated values through parse_object, parse_string, parse_env and parse_path.
Oracle   validity predicate on the outcome: returns a Namespace | ArgumentError iff exit_on_error=False | SystemExit(2) with 'usage:' and
         'error:' on stderr iff exit_on_error=True | SystemExit(0) only when a help / print_config item is present.  Everything else -
         incl. the 10 s watchdog (non-termination) - is a finding bucketed by (exception type, innermost jsonargparse frame).
"""
import contextlib
import io
import json
import os
import signal
import sys

from hypothesis import strategies as st

from ..core import HarnessError, fmt_exc, innermost_pkg_frame, run_given, short
from ..gen import types as G
from . import _rt

ID = "C03"
LEVEL = "exploration"
ENGINE = "hypothesis (+ atheris/libFuzzer coverage guidance in the thorough tier)"
TECHNIQUE = "grammar-based fuzzing of command lines, environments, config texts/paths/objects with an outcome-validity oracle (exception type / exit status / stderr), bucketed by root-cause frame"
LEVEL_TEXT = ("Tens of thousands of generated command lines (and env mappings, config strings, paths, objects) per run against six parser "
              "shapes in both exit_on_error modes; any outcome other than a result, ArgumentError / exit 2 with usage+error, or exit 0 for "
              "help/print_config is a violation, as is a case that does not terminate within 10 s. 'Any input' is unbounded: the grammar bounds it.")
LEVEL_NOTE = ("Trusted: the outcome predicate (self-tested). NUL never appears on argv/env (the OS cannot pass it) and recursive YAML "
              "aliases are excluded by construction and counted, with an alarm-guarded replay (F9) kept in known_findings.json.")
RULE = ("case = (parser shape, exit_on_error, channel, input). non-trivial = an argv of >= 2 items whose outcome is an error, or an input "
        "addressing a sub-key of a structured argument (init_args / class_path / dict item / list index), or a non-argv channel that errors. "
        "distinct = hash of the case")
ASSUMPTIONS = [
    "stdin is an empty stream; the process is not a tty",
    "SystemExit(0) is legitimate exactly when the command line contains --help/-h, a --*.help item or --print_config",
    "warnings are not failures",
]
WATCHDOG_S = 10
FX = "vf.gen.fixtures."


# ------------------------------------------------------------------------------------------------- parser shapes
def _even(text):
    import argparse

    v = int(text)
    if v % 2:
        raise argparse.ArgumentTypeError(f"{text!r} is not an even number")
    return v


def build(shape, eoe):
    import dataclasses
    import pathlib
    from typing import Any, Callable, Dict, List, Literal, Optional, Tuple, Type, Union

    from jsonargparse import ActionConfigFile, ArgumentParser, lazy_instance
    from jsonargparse.typing import Path_dw, Path_fr, PositiveInt, restricted_string_type

    from ..gen import fixtures as F

    p = ArgumentParser(exit_on_error=eoe, prog="app", env_prefix="APP", default_env=False)
    p.add_argument("--cfg", action="config")
    if shape == "flat":
        p.add_argument("--i", type=int, default=1)
        p.add_argument("--f", type=float)
        p.add_argument("--s", type=str, default="x")
        p.add_argument("--b", type=bool, default=False)
        p.add_argument("--li", type=List[int], default=[1])
        p.add_argument("--d", type=Dict[str, int])
        p.add_argument("--oe", type=Optional[G.Color])
        p.add_argument("--t", type=Tuple[int, str])
        p.add_argument("--u", type=Union[int, List[str], Dict[str, float]])
        p.add_argument("--any", type=Any)
        p.add_argument("--flag", action="store_true")
        from jsonargparse import ActionYesNo

        p.add_argument("--yn", action=ActionYesNo, default=False)
        p.add_argument("pos", type=int, nargs="?")
    elif shape == "groups":
        @dataclasses.dataclass
        class Inner:
            a: int = 1
            b: List[str] = dataclasses.field(default_factory=list)

        @dataclasses.dataclass
        class Outer:
            inner: Inner = dataclasses.field(default_factory=Inner)
            items: Dict[str, Inner] = dataclasses.field(default_factory=dict)
            lst: List[Inner] = dataclasses.field(default_factory=list)
            opt: Optional[Inner] = None

        p.add_argument("--g.x", type=int, default=0)
        p.add_argument("--g.h.y", type=PositiveInt, default=1)
        p.add_argument("--dc", type=Outer, default=Outer())
        p.add_argument("--req", type=str, required=True)
    elif shape == "classes":
        p.add_argument("--m", type=F.Base, default=lazy_instance(F.SubA, p=3))
        p.add_argument("--ms", type=List[F.Base])
        p.add_argument("--h", type=Optional[F.Holder])
        p.add_argument("--dm", type=Dict[str, F.Base])
        p.add_argument("--um", type=Union[int, F.Base])
        p.add_class_arguments(F.SubB, "grp")
    elif shape == "misc":
        p.add_argument("--call", type=Callable[[int], int])
        p.add_argument("--ty", type=Type[F.Base])
        p.add_argument("--lit", type=Literal["a", 1, None])
        p.add_argument("--pr", type=Path_fr)
        p.add_argument("--pd", type=Optional[Path_dw])
        p.add_argument("--pp", type=pathlib.Path)
        p.add_argument("--rs", type=restricted_string_type("C03Rs", "^[a-z]+$"))
        p.add_argument("--lp", type=List[Path_fr])
        p.add_argument("--choice", choices=["x", "y"])
        p.add_argument("--n2", nargs=2, type=int)
        p.add_argument("--star", nargs="*", type=float)
        p.add_argument("--ct", type=_even)  # a plain argparse type function that refuses values the argparse way
        p.add_argument("--cts", type=_even, nargs="+")
    elif shape == "subcommands":
        p.add_argument("--top", type=int, default=0)
        sc = p.add_subcommands(required=True)
        # the sub-parsers are created with the *opposite* setting on purpose: attaching them must make them follow their parent
        a = ArgumentParser(exit_on_error=not eoe)
        a.add_argument("--cfga", action="config")
        a.add_argument("--x", type=int, default=1)
        a.add_argument("--m", type=F.Base)
        sc.add_subcommand("a", a)
        b = ArgumentParser(exit_on_error=not eoe)
        b.add_argument("--y", type=List[int])
        sc.add_subcommand("b", b)  # (levels must be attached in level order)
        sc2 = b.add_subcommands(required=False, dest="sub2")
        c = ArgumentParser()
        c.add_argument("--cfgc", action="config")
        c.add_argument("--z", type=Dict[str, int])
        sc2.add_subcommand("c", c)
        dd = ArgumentParser()  # a second inner subcommand, with a required argument of its own
        dd.add_argument("--need", type=int, required=True)
        sc2.add_subcommand("d", dd)
    elif shape == "links":
        p.add_argument("--src", type=int, default=2)
        p.add_argument("--tgt", type=int)
        p.add_argument("--m", type=F.Base, default=lazy_instance(F.SubA))
        p.add_class_arguments(F.Holder, "hold")
        p.link_arguments("src", "tgt")
        p.link_arguments("src", "m.init_args.p")
        p.link_arguments("src", "hold.inner.init_args.p", compute_fn=lambda v: v + 1)
    else:
        raise HarnessError(shape)
    return p


SHAPES = ["flat", "groups", "classes", "misc", "subcommands", "links"]
KEYS = {
    "flat": ["i", "f", "s", "b", "li", "d", "d.k", "oe", "t", "u", "any", "any.x", "flag", "cfg", "li+", "u+"],
    "groups": ["g.x", "g.h.y", "g", "g.h", "dc", "dc.inner", "dc.inner.a", "dc.inner.b", "dc.inner.b+", "dc.items", "dc.items.k", "dc.lst", "dc.lst+", "dc.opt", "dc.opt.a", "req", "cfg"],
    "classes": ["m", "m.class_path", "m.init_args", "m.init_args.p", "m.init_args.q", "m.p", "m.q", "m.dict_kwargs", "m.dict_kwargs.z", "ms", "ms+", "ms.init_args.p", "ms.p",
                "h", "h.init_args.inner", "h.inner", "h.inner.init_args.p", "h.init_args.inner.init_args.p", "h.items", "dm", "dm.k", "dm.k.init_args.p", "um", "grp", "grp.r", "grp.f", "grp.t", "cfg", "m.help", "ms.help", "h.help"],
    "misc": ["call", "ty", "lit", "pr", "pd", "pp", "rs", "lp", "lp+", "choice", "n2", "star", "ct", "cts", "cfg"],
    "subcommands": ["top", "cfg", "x", "m", "m.init_args.p", "cfga", "y", "y+", "z", "z.k", "cfgc", "a.x", "b.y", "b.c.z", "subcommand", "sub2", "b.sub2", "b.d.need", "need"],
    "links": ["src", "tgt", "m", "m.init_args.p", "m.p", "hold.inner", "hold.inner.init_args.p", "hold.items", "cfg"],
}
POSITIONALS = {"subcommands": ["a", "b", "c", "zz", "a", "b", "d"], "flat": ["3", "x", "-1", "1.5"], "groups": ["zz"], "classes": ["zz"], "misc": ["zz"], "links": ["zz"]}
ENV_NAMES = {
    "flat": ["APP_I", "APP_F", "APP_S", "APP_B", "APP_LI", "APP_D", "APP_OE", "APP_T", "APP_U", "APP_ANY", "APP_CFG", "APP_POS", "APP_FLAG"],
    "groups": ["APP_G__X", "APP_G__H__Y", "APP_DC", "APP_DC__INNER__A", "APP_DC__LST", "APP_REQ", "APP_CFG"],
    "classes": ["APP_M", "APP_MS", "APP_H", "APP_DM", "APP_UM", "APP_GRP__R", "APP_GRP__F", "APP_CFG"],
    "misc": ["APP_CALL", "APP_TY", "APP_LIT", "APP_PR", "APP_PD", "APP_PP", "APP_RS", "APP_LP", "APP_CHOICE", "APP_N2", "APP_STAR", "APP_CT", "APP_CTS", "APP_CFG"],
    "subcommands": ["APP_TOP", "APP_SUBCOMMAND", "APP_A__X", "APP_A__M", "APP_B__Y", "APP_B__SUB2", "APP_B__C__Z", "APP_B__D__NEED", "APP_A__CFGA", "APP_CFG"],
    "links": ["APP_SRC", "APP_TGT", "APP_M", "APP_HOLD__INNER", "APP_CFG"],
}

GOOD = ["1", "0", "-3", "2.5", "true", "false", "abc", "x", "red", "[1, 2]", "[]", '["a", "b"]', '{"k": 1}', "{}", "null", '[1, "a"]', "a", "y",
        FX + "SubA", FX + "SubB", "SubA", "SubB", "Base", '{"class_path": "' + FX + 'SubA", "init_args": {"p": 5}}', '{"class_path": "SubB", "init_args": {"r": [1.5]}}',
        '{"init_args": {"p": 7}}', '{"p": 7}', '[{"class_path": "SubA"}]', '{"k": {"class_path": "SubA"}}', '{"class_path": "' + FX + 'Holder", "init_args": {"inner": "SubA"}}',
        '{"a": 2, "b": ["x"]}', '{"inner": {"a": 3}}', '[{"a": 1}]', '{"k": {"a": 1}}', "math.sqrt", "os.path.join", "1 2", "on", "1e3", "0x1F", "1_000"]
BAD = ["", " ", "1.5x", "[1,", "{", "}", "]", "[1, 2", '{"k": }', "{a: 1", "- x", "a: b: c", "? a", "!!python/object:os.system x", "!!binary aGk=", "!!set {a, b}", "!t v", "&a 1", "*a",
       "&a [1, *b]", "[&x 1, *x]", "&a [*a]", "&a {k: *a}", "&a [1, [2, *a]]", "{x: &b {y: *b}}", "{? [1, 2] : 3}", "{[1]: 2}", "{1: 2}", "{null: 1}", "{true: 1}", "<<: {a: 1}", "%YAML 1.1", "--- 1", "... ", "\t", "a\nb", "[1, [2, [3, [4]]]]", "=",
       "os", "os.path", "os.getcwd", "os.nonexistent", "nonexistent.mod.Class", "..", ".", "a.", ".a", "a..b", "__class__", "builtins.int", "int", "str.join", FX + "Unrelated", FX + "CALLS",
       FX + "Base.__init__", "vf.gen.fixtures", "vf.gen", FX, "jsonargparse.ArgumentParser", "jsonargparse.Namespace", "calendar.Calendar", "dict", "type", "object",
       '{"class_path": 1}', '{"class_path": null}', '{"class_path": []}', '{"class_path": "SubA", "init_args": 5}', '{"class_path": "SubA", "init_args": [1]}',
       '{"class_path": "SubA", "init_args": {"zz": 1}}', '{"class_path": "SubA", "dict_kwargs": 5}', '{"class_path": "SubA", "dict_kwargs": {"p": 1}}', '{"class_path": "SubA", "zz": 1}',
       '{"class_path": "Unrelated"}', '{"class_path": "os.getcwd"}', '{"class_path": "nonexistent.X"}', '{"class_path": "", "init_args": {}}', '{"init_args": {}}', '{"dict_kwargs": {"a": 1}}',
       '{"class_path": "' + FX + 'Holder"}', '{"class_path": "' + FX + 'Holder", "init_args": {"inner": 5}}', '{"class_path": "SubReq"}', '[{"class_path": "SubA"}, 5]', '[5]', '{"k": 5}',
       '{"cfg": "x"}', '{"cfg": null}', '{"cfg": []}', '{"cfg": {"i": 1}}', '{"subcommand": "zz"}', '{"subcommand": 5}', '{"subcommand": null}', '{"subcommand": ["a"]}', '{"subcommand": "a", "b": {"y": [1]}}',
       '{"a": {"zz": 1}}', '{"a": 5}', '{"b": {"sub2": "zz"}}', '{"b": {"c": 5}}', '{"zz": 1}', '{"g": 5}', '{"g": {"zz": 1}}', '{"dc": 5}', '{"dc": {"inner": 5}}', '{"dc": {"lst": [5]}}',
       '{"m": {"class_path": "SubA", "init_args": {"p": "x"}}}', '{"i": "x"}', '{"i": null}', '{"li": 5}', '{"li+": 5}', '{"li+": [1]}', '{"d": {"k": "x"}}', '{"t": [1]}', '{"__path__": 1}',
       '{"g": {"h": {"y": .inf}}}', '{"g": {"h": {"y": -.inf}}}', '{"g": {"h": {"y": 1e999}}}', '{"g": {"h": {"y": .nan}}}', '{"i": .inf}', '{"li": [.inf]}', '{"dc": {"inner": {"a": .inf}}}', '{"f": .inf}',
       "\u00b2", "-\u00b2", "\u2460\u2461", "9" * 4400, "-" + "9" * 4400, '{"i": \u00b2}', '{"dc": "\u00b2"}', '{"dc": {"inner": "\u00b2"}}',
       "@D@/bin.yaml", '{"cfg": "@D@/bin.yaml"}', "a\x00b", '{"cfg": "a\\u0000b"}', '{"dc": "a\\u0000b"}', '{"s": "a\\u0000b"}', "[" * 600 + "]" * 600, '{"li": ' + "[" * 600 + "]" * 600 + '}',
       '{"any": {"class_path": "a.b.c"}}', '{"d": {.inf: 1}}',
       '{"i": 1, "i": 2}', '[]', '5', 'null', '"str"', "@file", "file:///x", "http://x", "~", "~nouser/x", "1" * 40, "9" * 400, "-", "--", "-x", "--zz", "-1", "1e400", "-.inf", ".nan",
       "\\", "'", '"', "a'b", 'a"b', "é", "😀", "\ud800", "a\x85b", "a b", "a=b", "a:b", "#", "a #b", "`", "$HOME", "${x}", "%s", "{0}", "[[]]", "{{}}", "[{}]", '{"": 1}', '{" ": 1}', '{"a.b": 1}',
       '{"a..b": 1}', '{".a": 1}', '{"a b": 1}', '{"+": 1}', '{"a+": 1}', '{"items": 1}', '{"keys": {"x": 1}}', '{"__dict__": 1}', '{"__class__": 1}']


GOODPAIRS = {
    "flat": [("i", ["1", "-3", "0"]), ("f", ["2.5", "1", "1e3"]), ("s", ["abc", "1", "null", ""]), ("b", ["true", "false"]), ("li", ["[1, 2]", "[]"]), ("li+", ["3", "[4]"]), ("d", ['{"k": 1}', "{}"]),
             ("d.k", ["2"]), ("oe", ["red", "null"]), ("t", ['[1, "a"]']), ("u", ["1", '["a"]', '{"k": 1.5}']), ("any", ["1", "x", "[1]", '{"a": 1}', '{"class_path": "a.b.C", "init_args": {"x": 1}}', '{"class_path": "zz.q", "init_args": {"x": 2}}', '{"class_path": "a.b.C", "init_args": {"x": 1}}']), ("cfg", ["@D@/ok.yaml", '{"i": 5}'])],
    "groups": [("g.x", ["1"]), ("g.h.y", ["2"]), ("dc", ['{"inner": {"a": 3}}', "{}"]), ("dc.inner", ['{"a": 2, "b": ["x"]}']), ("dc.inner.a", ["4"]), ("dc.inner.b", ['["x"]']), ("dc.inner.b+", ["y"]),
               ("dc.items", ['{"k": {"a": 1}}']), ("dc.lst", ['[{"a": 1}]', "[]"]), ("dc.lst+", ['{"a": 1}']), ("dc.opt", ['{"a": 1}', "null"]), ("req", ["r", "x"]), ("req", ["r"]), ("req", ["r"]), ("cfg", ["@D@/ok.yaml"])],
    "classes": [("m", ["SubA", FX + "SubB", '{"class_path": "SubA", "init_args": {"p": 5}}', '{"init_args": {"p": 7}}']), ("m.init_args.p", ["4"]), ("m.p", ["4"]), ("m.class_path", ["SubB"]), ("m.dict_kwargs.z", ["1"]),
                ("ms", ['[{"class_path": "SubA"}]', "[]"]), ("ms+", ["SubA", '{"class_path": "SubB"}']), ("h", ['{"class_path": "' + FX + 'Holder", "init_args": {"inner": "SubA"}}', "null"]),
                ("h.init_args.inner", ["SubA"]), ("dm", ['{"k": {"class_path": "SubA"}}', "{}"]), ("um", ["1", "SubA"]), ("grp.r", ["[1.5]", "null"]), ("grp.f", ["on", "null"]), ("grp.t", ['[1, "x"]'])],
    "misc": [("ct", ["2", "0"]), ("cts", ["[2, 4]"]), ("call", ["math.sqrt", "abs"]), ("ty", [FX + "SubA", FX + "Base"]), ("lit", ["a", "1", "null"]), ("pr", ["@D@/ok.yaml"]), ("pd", ["@D@", "null"]), ("pp", ["a/b", "x"]), ("rs", ["abc"]),
             ("lp", ['["@D@/ok.yaml"]', "@D@/data.txt"]), ("choice", ["x", "y"]), ("star", ["1.5"]), ("cfg", ['{"rs": "q"}'])],
    "subcommands": [("top", ["1"]), ("cfg", ['{"top": 2}', '{"subcommand": "a"}', '{"a": {"x": 3}}', '{"b": {"y": [1]}}', '{"subcommand": "b", "b": {"sub2": "d", "d": {"need": 1}}}'])],
    "links": [("src", ["1", "5"]), ("m", ["SubA", '{"class_path": "SubA", "init_args": {"q": "z"}}']), ("hold.inner", ["SubA", "Base"]), ("hold.items", ['{"a": 1}', "null"]), ("cfg", ['{"src": 3}', "@D@/ok.yaml"])],
}
BADPAIRS = {
    "misc": [("ct", ["3", "x", "[2]", "null", "1.5"]), ("cts", ["[3]", "[2, x]", "3", "{}"]), ("ty", ["a.b", "os.nonexistent", "os", "os.getcwd", FX + "Unrelated", "", ".", "a.", "1", "[1]"]), ("call", ["a.b", "os.nonexistent", "os", "1", FX + "Base", "{}"]), ("pr", ["@D@/missing.yaml", "@D@", "", "-"]),
             ("pd", ["@D@/ok.yaml", "@D@/missing"]), ("lp", ['["@D@/missing.yaml"]', "@D@/missing.txt", "5"]), ("n2", ["1", "x"]), ("choice", ["z", ""])],
    "classes": [("m", ["a.b", "os.nonexistent", "os.getcwd", FX + "Unrelated", FX + "CALLS", "", "5", "[]"]), ("m.class_path", ["a.b", "Unrelated", "", "5"]), ("m.init_args", ["5", "[1]", '{"zz": 1}']),
                ("ms+", ["a.b", "5", '{"class_path": 1}']), ("h.init_args.inner", ["a.b", "5", "Unrelated"]), ("dm.k", ["a.b", "5"]), ("um", ["a.b", "x", "1.5"])],
    "flat": [("i", ["x", "1.5", "", "[1]", "Infinity", "1e999", "NaN", "\u00b2"]), ("yn", ["1", "0", "1.5", "[1]", "{}", "maybe", "null"]), ("f", ["x", "[1]"]), ("li", ["[Infinity]", "[1e999]"]), ("li", ["x", "{}", "[x]"]), ("d", ["x", "[1]", '{"k": "x"}']), ("t", ["[1]", '[1, "a", 2]', "x"]), ("oe", ["purple", "1"]), ("cfg", ["@D@/missing.yaml", "@D@", "{", "5", "[]"])],
    "groups": [("dc", ["5", "[1]", '{"zz": 1}', '{"inner": 5}', "\u00b2", "-\u00b2"]), ("dc.lst", ["5", "[5]", '[{"zz": 1}]']), ("dc.items", ["5", '{"k": 5}']), ("g.h.y", ["0", "-1", "x", ".inf", "-.inf", "1e999", ".nan", "1.5", "Infinity", "-Infinity", "NaN"]), ("g.x", ["Infinity", "1e999", "NaN"]), ("dc.inner.a", ["Infinity", "1e999"]), ("dc.opt", ["5", '{"zz": 1}'])],
    "subcommands": [("cfg", ['{"subcommand": "b", "b": {"sub2": "d"}}', '{"subcommand": "b", "b": {"y": [1], "sub2": "d"}}', '{"subcommand": "b", "b": {"sub2": "d", "d": {}}}', '{"subcommand": "b", "b": {"sub2": "d", "d": null}}', '{"a": 5}', '{"a": null}', "? a", '{"b": {"c": 5}}', '{"subcommand": "zz"}', '{"b": {"sub2": "zz"}}', '{"a": {"m": "a.b"}}'])],
    "links": [("tgt", ["1"]), ("m.init_args.p", ["1"]), ("src", ["x"]), ("hold.inner", ["a.b", "5"])],
}
WHOLE_SUBCOMMAND_DOCS = ['{"subcommand": "b", "b": {"sub2": "d"}}', '{"subcommand": "b", "b": {"y": [1], "sub2": "d"}}', '{"subcommand": "b", "b": {"sub2": "d", "d": {}}}',
                         '{"subcommand": "b", "b": {"sub2": "d", "d": null}}', '{"subcommand": "b", "b": {"sub2": "d", "d": {"need": 1}}}', '{"subcommand": "b", "b": {"sub2": "d", "d": {"need": null}}}',
                         '{"subcommand": "b", "b": {"sub2": "c"}}', '{"subcommand": "b", "b": {"sub2": "c", "c": {"z": {"k": 1}}}}', '{"subcommand": "b"}', '{"subcommand": "b", "b": null}', '{"subcommand": "b", "b": 5}',
                         '{"subcommand": "a"}', '{"subcommand": "a", "a": null}', '{"b": {"d": {"need": 2}}}', '{"b": {"d": {}}}', '{"subcommand": "b", "b": {"sub2": "zz"}}', '{"subcommand": null}', '{"b": {"sub2": "d"}, "a": {"x": 1}}']
GOODTAILS = {"subcommands": [["a"], ["a", "--x=2"], ["a", "--m=SubA"], ["b"], ["b", "--y=[1]"], ["b", "c"], ["b", "c", "--z={\"k\": 1}"], ["a", "--cfga", "{\"x\": 5}"], ["b", "--y+=2", "c", "--z.k=3"], ["b", "d", "--need=1"], ["b", "d"]],
             "groups": [["--req=r"]], "flat": [["7"], []], "classes": [[]], "misc": [[]], "links": [[]]}


@G._memo
def good_argv(shape):
    """well-formed command lines (so that a sizeable share of the cases parse and deeper code is reached)"""
    pair = st.sampled_from(GOODPAIRS[shape]).flatmap(lambda kv: st.tuples(st.just(kv[0]), st.sampled_from(kv[1]), st.booleans())).map(
        lambda t: [f"--{t[0]}={t[1]}"] if t[2] or t[1].startswith("-") or t[1] == "" else [f"--{t[0]}", t[1]])
    return st.tuples(st.lists(pair, max_size=3), st.sampled_from(GOODTAILS[shape])).map(lambda t: [a for x in t[0] for a in x] + list(t[1]))


@G._memo
def name_strategy(shape):
    keys = KEYS[shape]
    real = st.sampled_from(keys)
    mutated = st.one_of(
        real.map(lambda k: k[: max(1, len(k) - 1)]),                       # abbreviation / prefix
        st.tuples(real, st.sampled_from([".zz", ".init_args.zz", ".class_path", ".init_args", ".dict_kwargs.z", ".0", ".1", ".k", "+", "++", ".", "..x", ".help", ".__class__", ". ", ".items", ".keys.x"])).map(lambda t: t[0] + t[1]),
        st.sampled_from(["zz", "zz.y", "", ".", "..", ".a", "a.", "a..b", "+", "a+", " ", "a b", "=", "-", "cfg.x", "help", "print_config", "print_config.x", "items", "keys", "__dict__", "subcommand", "init_args", "class_path"]),
    )
    return st.one_of(real, real, real, mutated)


@G._memo
def value_strategy(d):
    files = [os.path.join(d, "ok.yaml"), os.path.join(d, "bad.yaml"), os.path.join(d, "missing.yaml"), d, os.path.join(d, "sub"), os.path.join(d, "ok.yaml") + "/x", "-",
             os.path.join(d, "empty.yaml"), os.path.join(d, "list.yaml"), os.path.join(d, "cfgincfg.yaml"), os.path.join(d, "data.txt")]
    return st.one_of(st.sampled_from(GOOD), st.sampled_from(GOOD), st.sampled_from(BAD), st.sampled_from(BAD), st.sampled_from(G.LOOKALIKE), st.sampled_from(files),
                     G.text_strategy().filter(lambda s: "\x00" not in s))


def prepare_files(d):
    os.mkdir(os.path.join(d, "sub"))
    with open(os.path.join(d, "ok.yaml"), "w") as f:
        f.write("i: 2\nx: 3\ng:\n  x: 4\nsrc: 5\ntop: 6\nreq: r\n")
    with open(os.path.join(d, "bad.yaml"), "w") as f:
        f.write("i: [1,\n  {")
    with open(os.path.join(d, "empty.yaml"), "w") as f:
        f.write("")
    with open(os.path.join(d, "list.yaml"), "w") as f:
        f.write("- 1\n- 2\n")
    with open(os.path.join(d, "cfgincfg.yaml"), "w") as f:
        f.write(f"cfg: {os.path.join(d, 'ok.yaml')}\n")
    with open(os.path.join(d, "data.txt"), "w") as f:
        f.write("1\n2\nx\n")
    with open(os.path.join(d, "bin.yaml"), "wb") as f:
        f.write(b"\xff\xfei: 1\n")  # not valid UTF-8
    for name, content in DCF_VARIANTS.items():
        if content is None:
            os.mkdir(os.path.join(d, f"dcf_{name}.yaml"))
        else:
            with open(os.path.join(d, f"dcf_{name}.yaml"), "wb") as f:
                f.write(content)


DCF_VARIANTS = {"empty-map": b"{}\n", "unknown-key": b"zz_unknown: 1\n", "binary": b"\xff\xfei: 1\n", "broken": b"i: [1,\n  {", "scalar": b"5\n", "list": b"- 1\n",
                "null": b"null\n", "ill-typed": b"cfg: 5\ni: x\nx: x\ntop: x\nsrc: x\nreq: [1]\nct: 3\n", "dir": None}
PLACEHOLDER = "@D@"  # cases are stored with the scratch directory abstracted away, so that replays are location independent


@G._memo
def case_strategy():
    d = PLACEHOLDER

    def argv_items(shape):
        name, value = name_strategy(shape), value_strategy(d)
        item = st.one_of(
            st.tuples(name, value).map(lambda t: [f"--{t[0]}={t[1]}"]),
            st.tuples(name, value).map(lambda t: [f"--{t[0]}={t[1]}"]),
            st.tuples(name, value).map(lambda t: [f"--{t[0]}", t[1]]),
            name.map(lambda n: [f"--{n}"]),
            st.sampled_from(POSITIONALS[shape]).map(lambda x: [x]),
            value.map(lambda v: [v]),
            st.sampled_from([["--"], ["-h"], ["--help"], ["--print_config"], ["--print_config=skip_null"], ["--print_config=comments,skip_default"], ["--print_config=zz"], ["--print_config", "x"],
                             ["-i", "3"], ["-zz"], ["--i"], ["--no-flag"], ["--flag=1"], ["--m.help"], ["--m.help", "SubA"], ["--m.help=" + FX + "SubB"], ["--m.help", "zz"], ["--ms.help", "SubA", "--zz"],
                             ["--h.help", FX + "Holder", "--h.init_args.inner.help", "SubA"], ["--version"], ["--print_shtab=bash"]]),
        )
        badpair = st.sampled_from(BADPAIRS[shape]).flatmap(lambda kv: st.tuples(st.just(kv[0]), st.sampled_from(kv[1]), st.booleans())).map(
            lambda t: [f"--{t[0]}={t[1]}"] if t[2] or t[1].startswith("-") or t[1] == "" else [f"--{t[0]}", t[1]])
        item = st.one_of(item, item, badpair)  # ill-typed values aimed at the option they are ill-typed for
        wild = st.lists(item, min_size=0, max_size=5).map(lambda xs: [a for x in xs for a in x])
        good = good_argv(shape)
        # half of the command lines are well formed, a quarter well formed with one wild item spliced in, a quarter wild
        mixed = st.tuples(good, item, st.integers(0, 6)).map(lambda t: t[0][: t[2]] + t[1] + t[0][t[2]:])
        return st.one_of(good, good, mixed, wild)

    def one(shape):
        # one case in three is followed by a plain parse through another method on the same parser object: whatever the first call did, the
        # second (an empty object / text / environment) must again end in one of the documented ways
        argv = st.tuples(argv_items(shape), st.booleans(), st.sampled_from([None, None, None, None, "object", "string", "env"])).map(
            lambda t: {"shape": shape, "channel": "argv", "eoe": t[1], "input": t[0], **({"then": t[2]} if t[2] else {})})
        env = st.tuples(st.dictionaries(st.sampled_from(ENV_NAMES[shape]), value_strategy(d), max_size=3), st.booleans(), argv_items(shape)).map(
            lambda t: {"shape": shape, "channel": "env", "eoe": t[1], "input": {"env": t[0], "argv": t[2][:2]}})
        string = st.tuples(value_strategy(d), st.booleans()).map(lambda t: {"shape": shape, "channel": "string", "eoe": t[1], "input": t[0]})
        doc = st.tuples(st.dictionaries(st.one_of(st.sampled_from(KEYS[shape]), name_strategy(shape)), value_strategy(d), max_size=3), st.booleans(), st.sampled_from(["string", "object", "object-parsed"])).map(
            lambda t: {"shape": shape, "channel": t[2], "eoe": t[1], "input": t[0]})
        gooddoc = st.tuples(st.lists(st.sampled_from(GOODPAIRS[shape]).flatmap(lambda kv: st.tuples(st.just(kv[0]), st.sampled_from(kv[1]))), min_size=1, max_size=3), st.booleans(),
                            st.sampled_from(["string", "object-parsed", "object-parsed"])).map(
            lambda t: {"shape": shape, "channel": t[2], "eoe": t[1], "input": dict(t[0], **({"req": "r"} if shape == "groups" else {"subcommand": "a"} if shape == "subcommands" else {}))})
        # ill-typed values aimed at the key they are ill-typed for, as a document / object (JSON-decoded where possible: Infinity, 1e999 ...)
        baddoc = st.tuples(st.lists(st.sampled_from(BADPAIRS[shape]).flatmap(lambda kv: st.tuples(st.just(kv[0]), st.sampled_from(kv[1]))), min_size=1, max_size=2), st.booleans(),
                           st.sampled_from(["string", "object-parsed", "object-parsed"])).map(
            lambda t: {"shape": shape, "channel": t[2], "eoe": t[1], "input": dict(t[0], **({"req": "r"} if shape == "groups" else {"subcommand": "a"} if shape == "subcommands" else {}))})
        path = st.tuples(value_strategy(d), st.booleans()).map(lambda t: {"shape": shape, "channel": "path", "eoe": t[1], "input": t[0]})
        # a well-formed command line that asks for the help or the configuration: the documented exit status 0
        helpish = st.tuples(good_argv(shape), st.sampled_from(["--help", "-h", "--print_config", "--print_config=skip_null", "--print_config=skip_default"]), st.booleans()).map(
            lambda t: {"shape": shape, "channel": "argv", "eoe": t[2], "input": list(t[0]) + [t[1]]})
        allc = st.one_of(argv, argv, argv, argv, env, string, doc, doc, gooddoc, gooddoc, baddoc, path, helpish)
        if shape == "subcommands":
            # whole documents that choose subcommands level by level, with and without the section / the required argument of the inner one
            whole = st.tuples(st.sampled_from(WHOLE_SUBCOMMAND_DOCS), st.booleans(), st.sampled_from(["string", "object"])).map(
                lambda t: {"shape": shape, "channel": t[2], "eoe": t[1], "input": t[0] if t[2] == "string" else json.loads(t[0])})
            allc = st.one_of(allc, allc, allc, allc, whole)
        # every parse method documents a ``defaults`` flag: one case in six is parsed without the parser's defaults
        allc = st.tuples(allc, st.integers(0, 5)).map(lambda t: dict(t[0], nodefaults=True) if t[1] == 0 else t[0])
        # ... and one in eight has a default config file of the parser that is fine, unreadable, ill-formed or ill-typed
        allc = st.tuples(allc, st.integers(0, 7), st.sampled_from(sorted(DCF_VARIANTS))).map(lambda t: dict(t[0], dcf=t[2]) if t[1] == 0 else t[0])
        # ... and one in ten is read by a parser in json mode (what is not JSON is then simply a string or an error)
        return st.tuples(allc, st.integers(0, 9)).map(lambda t: dict(t[0], pmode="json") if t[1] == 0 else t[0])

    per_shape = {sh: one(sh) for sh in SHAPES}  # built once: strategy construction is the expensive part
    return st.sampled_from(SHAPES).flatmap(lambda sh: per_shape[sh])


# ------------------------------------------------------------------------------------------------- execution
class Timeout(BaseException):
    pass


def _alarm(signum, frame):
    raise Timeout()


def subst(v, d):
    if isinstance(v, str):
        return v.replace(PLACEHOLDER, d)
    if isinstance(v, list):
        return [subst(x, d) for x in v]
    if isinstance(v, dict):
        return {subst(k, d): subst(x, d) for k, x in v.items()}
    return v


RECURSIVE_ALIAS = __import__("re").compile(r"&(\w+)[^&]*\*\1")


def excluded(case):
    s = json.dumps(case["input"], default=repr)
    if "\\u0000" in s and case["channel"] in ("argv", "env"):
        return "NUL character on a command line or in the environment (the OS interfaces cannot carry it)"
    if case["channel"] != "string" and __import__("re").search(r"\\ud[89ab][0-9a-f]{2}", s):
        return "lone surrogate outside a config text (OS interfaces cannot carry it; in a config text it is handled, F36)"
    return None


def is_recursive_alias(text):
    """an anchor whose own node contains an alias to it: &a [*a] / &a {k: *a}  (F9: hangs or RecursionError)"""
    import yaml

    try:
        v = yaml.safe_load(text)
    except Exception:  # noqa
        return False
    seen = set()

    def walk(x, stack):
        if isinstance(x, (list, dict)):
            if id(x) in stack:
                return True
            stack = stack | {id(x)}
            return any(walk(y, stack) for y in (x.values() if isinstance(x, dict) else x))
        return False

    return walk(v, frozenset())


def all_strings(v):
    if isinstance(v, str):
        yield v
    elif isinstance(v, list):
        for x in v:
            yield from all_strings(x)
    elif isinstance(v, dict):
        for k, x in v.items():
            yield from all_strings(k)
            yield from all_strings(x)


def execute(case, d):
    """-> (kind, detail) with kind in result / argument-error / exit / exception / timeout.  When the case asks for a follow-up call
    ("then": a plain, valid parse through another method on the *same* parser object) its outcome is left in FOLLOW[0]."""
    from jsonargparse import ArgumentError, Namespace

    inp = subst(case["input"], d)
    p = build(case["shape"], case["eoe"])
    if case.get("dcf"):
        p.default_config_files = [os.path.join(d, f"dcf_{case['dcf']}.yaml")]
    if case.get("pmode"):
        p.parser_mode = case["pmode"]
    ch = case["channel"]
    old_stdin, old_cwd, old_env = sys.stdin, os.getcwd(), dict(os.environ)
    sys.stdin = io.StringIO("")
    signal.signal(signal.SIGALRM, _alarm)

    kw = {"defaults": False} if case.get("nodefaults") else {}

    def main_call():
        if ch == "argv":
            return p.parse_args(list(inp), **kw)
        elif ch == "env":
            return p.parse_env(dict(inp["env"]), **kw) if not inp["argv"] else _with_env(p, inp, **kw)
        elif ch == "string":
            return p.parse_string(inp if isinstance(inp, str) else json.dumps(inp), **kw)
        elif ch == "object":
            return p.parse_object(dict(inp), **kw)
        elif ch == "object-parsed":
            obj = {}
            for k, v in inp.items():
                try:
                    obj[k] = json.loads(v)
                except Exception:  # noqa
                    obj[k] = v
            return p.parse_object(obj, **kw)
        elif ch == "path":
            return p.parse_path(inp, **kw)
        raise HarnessError(ch)

    def attempt(fn):
        out, err = io.StringIO(), io.StringIO()
        signal.alarm(WATCHDOG_S)
        try:
            with contextlib.redirect_stdout(out), contextlib.redirect_stderr(err):
                r = fn()
            signal.alarm(0)
            if not isinstance(r, Namespace):
                return "exception", ("NotANamespace", repr(type(r)), None)
            return "result", None
        except Timeout:
            return "timeout", None
        except ArgumentError as ex:
            signal.alarm(0)
            return "argument-error", str(ex)[:300]
        except SystemExit as ex:
            signal.alarm(0)
            return "exit", (ex.code, out.getvalue(), err.getvalue())
        except HarnessError:
            raise
        except BaseException as ex:  # noqa
            signal.alarm(0)
            return "exception", (type(ex).__name__, fmt_exc(ex), innermost_pkg_frame(ex))
        finally:
            signal.alarm(0)

    FOLLOW[0] = None
    try:
        res = attempt(main_call)
        then = case.get("then")
        if then and res[0] != "timeout":
            p.default_env = False
            os.environ.clear()
            os.environ.update(old_env)
            FOLLOW[0] = attempt({"object": lambda: p.parse_object({}), "string": lambda: p.parse_string("{}"), "env": lambda: p.parse_env({})}[then])
        return res
    finally:
        sys.stdin = old_stdin
        if os.getcwd() != old_cwd:
            os.chdir(old_cwd)
        os.environ.clear()
        os.environ.update(old_env)


FOLLOW = [None]


def _with_env(p, inp, **kw):
    os.environ.update(inp["env"])
    p.default_env = True
    return p.parse_args(list(inp["argv"]), **kw)


HELPISH = ("-h", "--help", "--print_config", "--version", "--print_shtab")


def wants_exit0(case):
    if case["channel"] == "argv":
        items = case["input"]
    elif case["channel"] == "env":
        items = case["input"]["argv"]
    else:
        return False
    return any(a in ("-h", "--help", "--version") or a.startswith("--print_config") or a.startswith("--print_shtab") or a.split("=")[0].endswith(".help") for a in items)


def judge(case, kind, detail):
    """None when the outcome is one of the documented ones, else (signature suffix, detail)"""
    eoe = case["eoe"]
    if kind == "result":
        return None
    if kind == "timeout":
        return ("does-not-terminate", f"no result within {WATCHDOG_S}s")
    if kind == "argument-error":
        return None if not eoe else ("ArgumentError-escapes-although-exit_on_error=True", detail)
    if kind == "exit":
        code, so, se = detail
        if code == 0:
            return None if wants_exit0(case) else ("exit-status-0-without-help-or-print_config", short(so, 200))
        if code == 2:
            if not eoe:
                return ("SystemExit(2)-although-exit_on_error=False", short(se, 300))
            if "usage:" not in se or "error:" not in se:
                return ("exit-2-without-usage-and-error-line-on-stderr", short(se, 300))
            return None
        return (f"exit-status-{code}", short(se, 300))
    name, text, frame = detail
    return (f"{name}@{frame[0] + ':' + frame[1] if frame else 'outside-package'}", text)


def run_case(ctx, case):
    reason = excluded(case)
    if reason:
        ctx.exclude(reason)
        return
    if any(("&" in s and "*" in s and is_recursive_alias(s)) for s in all_strings(case["input"])):
        ctx.cls("input-with-recursive-yaml-alias")  # (F9, repaired: these used to hang or end in RecursionError)
    with _rt.scratch_dir() as d:
        prepare_files(d)
        kind, detail = execute(case, d)
        verdict = judge(case, kind, detail)
        if verdict is not None and verdict[0] == "does-not-terminate":
            kind2, detail2 = execute(case, d)  # re-confirm once before believing a watchdog expiry
            if kind2 != "timeout":
                ctx.cls("watchdog-expiry-not-reproduced")
                verdict = judge(case, kind2, detail2)
        follow = FOLLOW[0]
    ctx.cls(f"channel:{case['channel']}")
    if case.get("nodefaults"):
        ctx.cls("parsed-with-defaults=False")
    if case.get("dcf"):
        ctx.cls("default-config-file:" + case["dcf"])
    if case.get("pmode"):
        ctx.cls("parser_mode:" + case["pmode"])
    ctx.cls(f"outcome:{kind}" + (f":{detail[0]}" if kind == "exit" else ""))
    if follow is not None and verdict is None:
        ctx.cls(f"follow-up:{case['then']}:{follow[0]}" + (f":{follow[1][0]}" if follow[0] == "exit" else ""))
        v2 = judge({"channel": case["then"], "eoe": case["eoe"], "input": {}}, follow[0], follow[1])
        if v2 is not None and follow[0] == "timeout":
            ctx.cls("follow-up watchdog expiry (inconclusive, not re-confirmed)")
        elif v2 is not None:
            ctx.finding(f"C03/follow-up-{case['then']}/{v2[0]}", {"first-outcome": kind, "detail": v2[1]})
    ctx.cls(f"shape:{case['shape']}")
    if verdict is not None:
        ctx.finding(f"C03/{case['channel'] if case['channel'] in ('argv', 'env', 'path') else 'config'}/{verdict[0]}", {"outcome": kind, "detail": verdict[1]})
    errored = kind in ("argument-error", "exit") and not (kind == "exit" and detail[0] == 0)
    subkey = any(x in json.dumps(case["input"]) for x in ("init_args", "class_path", "dict_kwargs", ".k", ".0", ".inner"))
    if (case["channel"] == "argv" and len(case["input"]) >= 2 and errored) or subkey or (case["channel"] != "argv" and errored):
        ctx.mark_nontrivial()
    ctx.sample()


def body(ctx):
    def f(case):
        ctx.begin(case)
        run_case(ctx, case)
        ctx.end()

    return f


def plan(tier):
    if tier == "quick":
        return [{"n": 3000} for _ in range(16)]
    # thorough: 12 shards of plain generated search + 4 shards in which libFuzzer's coverage feedback (atheris, package instrumented at
    # import) steers the same structured generator through Hypothesis' fuzz_one_input, each from an empty corpus with its own seed
    return [{"n": 60000} for _ in range(12)] + [{"kind": "atheris", "n": 40000} for _ in range(4)]


def run_shard(spec, ctx):
    import warnings

    warnings.simplefilter("ignore")
    if spec.get("kind") == "atheris":
        from ..core import run_atheris

        ctx.cls("engine:atheris")
        run_atheris(ctx, case_strategy(), body(ctx), spec["n"])
    else:
        run_given(ctx, case_strategy(), body(ctx), spec["n"])


def health(tier, evaluations, nontrivial, classes):
    msgs = []
    tot = sum(v for k, v in classes.items() if k.startswith("outcome:"))
    if tot and classes.get("outcome:result", 0) / tot < 0.15:
        msgs.append(f"too few successful parses: {classes.get('outcome:result', 0)}/{tot}")
    for c in ("outcome:argument-error", "outcome:exit:2", "outcome:exit:0", "channel:env", "channel:path", "channel:object-parsed"):
        if classes.get(c, 0) < 20:
            msgs.append(f"class {c} nearly absent ({classes.get(c, 0)})")
    return msgs


def self_test():
    c = {"shape": "flat", "channel": "argv", "eoe": False, "input": ["--i=1"]}
    assert judge(c, "result", None) is None
    assert judge(c, "argument-error", "x") is None and judge(dict(c, eoe=True), "argument-error", "x") is not None
    assert judge(c, "exit", (2, "", "usage: x\nerror: y")) is not None and judge(dict(c, eoe=True), "exit", (2, "", "usage: x\napp: error: y")) is None
    assert judge(dict(c, eoe=True), "exit", (2, "", "boom")) is not None
    assert judge(c, "exit", (0, "", "")) is not None and judge(dict(c, input=["--help"]), "exit", (0, "", "")) is None
    assert judge(c, "exception", ("KeyError", "k", ("_core.py", "f"))) == ("KeyError@_core.py:f", "k")
    assert judge(c, "timeout", None)[0] == "does-not-terminate"
    assert is_recursive_alias("&a [*a]") and is_recursive_alias("&a {k: *a}") and not is_recursive_alias("[&x 1, *x]")
    with _rt.scratch_dir() as d:  # the executor must classify outcomes; *which* outcome the library gives is the check's subject
        prepare_files(d)
        for inp in (["--i=3"], ["--i=x"]):
            for eoe in (False, True):
                assert execute({"shape": "flat", "channel": "argv", "eoe": eoe, "input": inp}, d)[0] in ("result", "argument-error", "exit", "exception")

"""C13  Parameters resolved through **kwargs are exactly those the code accepts.

Domain   generated programs, written to real source files, composed only from the *documented* forwarding patterns: super().__init__(**kwargs)
         (+ *args), with hard-coded keywords, with positional forwarding of an own parameter, super(Cls, self) non-immediate, cooperative
         multiple inheritance (diamonds), self.method(**kwargs), module function call, attribute store + use in a method / property,
         dict(k=.., **kwargs) / .update(**kwargs) / literal + update, kwargs.pop('name', default), cls(**kwargs) in a classmethod,
         function -> function chains, **kwargs handed to the construction of a class of *another* hierarchy (directly / through a
         function, own parent given no kwargs), to a method / static method of a local instance, to a class method, and
         if GLOBAL / elif not GLOBAL / else branches; hierarchy depth 1-5; random parameter names from a 26-name pool, types,
         defaults, required parameters.
Oracle   the interpreter: the generator keeps a model of every callable (accepted names, type, default); before the library is consulted the
         model is validated by *calling* the code (all modelled names accepted incl. members that consume stored kwargs; every other pool
         name rejected with TypeError).  Then: offered names == model names (soundness and completeness), hard-coded names not offered,
         type and default of each offered parameter equal those of the declaring signature - on get_signature_parameters and on the options
         that add_class_arguments / add_function_arguments create.
"""
import inspect
import json
import logging

from hypothesis import strategies as st

from ..core import HarnessError, fmt_exc, run_given, short
from ..gen import programs as PR
from ..gen import types as G

ID = "C13"
LEVEL = "exploration"
ENGINE = "hypothesis + generated source files"
TECHNIQUE = "property-based testing over generated programs with an interpreter-validated model: the set, types and defaults of resolved parameters are compared with what calling the code accepts"
LEVEL_TEXT = ("Thousands of generated class hierarchies and call chains per run (20 documented forwarding patterns, depth up to 5, single and "
              "multiple inheritance); for every callable the model is first confirmed by the interpreter, then compared with the resolver's "
              "answer and with the options a parser creates. Exploration: the pattern grammar bounds it; undocumented patterns are not generated.")
LEVEL_NOTE = ("Trusted: the interpreter (python itself decides what a call accepts). A callable whose model the interpreter does not confirm is "
              "skipped and counted; more than 5 % of those is a harness error. Known finding F26 (preset keys of dict(k=v, **kwargs) are offered "
              "although passing them raises) is recorded by a narrow signature; the suite pins that behaviour.")
RULE = ("case = generated program (source text + model). One evaluation per callable whose model the interpreter confirmed. non-trivial = hierarchy "
        "depth >= 3, or multiple inheritance, or at least two distinct forwarding patterns in the chain. distinct = hash of (source, callable)")
ASSUMPTIONS = [
    "a 'legal call' of a class that stores **kwargs means constructing it and invoking every member that consumes the stored kwargs",
    "Base.__init__(self, **kw) with explicit self is undocumented and not generated",
]
POOL = [f"p{i}" for i in range(26)]
TYV = {"int": [0, 3, 9], "str": ["'a'", "'b'"], "float": [0.5, 2.0], "bool": [True, False]}
SAMPLE = {"int": 1, "str": "s", "float": 2.5, "bool": False, None: 0}


class Chooser:
    """the random.Random-like interface the generator uses, backed by Hypothesis draws (so that programs shrink and replay)"""

    def __init__(self, draw):
        self.draw = draw

    def randint(self, a, b):
        return self.draw(st.integers(a, b))

    def choice(self, seq):
        return self.draw(st.sampled_from(list(seq)))

    def chance(self, p):
        return self.draw(st.integers(0, 99)) < int(p * 100)

    def sample(self, seq, k):
        seq = list(seq)
        if k >= len(seq):
            return self.draw(st.permutations(seq))
        return self.draw(st.lists(st.sampled_from(seq), min_size=k, max_size=k, unique=True))


class Gen:
    def __init__(self, rnd, tag):
        self.rnd, self.tag = rnd, tag
        self.used = set()
        self.lines = ["from typing import Optional, List", ""]
        self.models, self.patterns, self.depth, self.first_param = {}, {}, {}, {}
        self.multi = set()

    def fresh(self, k):
        avail = [n for n in POOL if n not in self.used]
        out = self.rnd.sample(avail, min(k, len(avail)))
        self.used.update(out)
        return list(out)

    def params(self, k):
        ps = []
        for n in self.fresh(k):
            ty = self.rnd.choice(sorted(TYV))
            dv = None if self.rnd.chance(0.3) else self.rnd.choice(TYV[ty])
            ps.append((n, ty, dv))
        ps.sort(key=lambda p: p[2] is not None)
        return ps

    @staticmethod
    def sig(ps):
        return ", ".join(f"{n}: {ty}" + ("" if dv is None else f" = {dv}") for n, ty, dv in ps)

    def strict_function(self, name):
        ps = self.params(self.rnd.randint(1, 3))
        self.lines.append(f"def {name}({self.sig(ps)}):\n    return ({', '.join(n for n, _, _ in ps)}{',' if ps else ''})\n")
        self.models[name] = {n: (ty, dv) for n, ty, dv in ps}
        self.patterns[name] = ["strict_fn"]
        self.depth[name] = 1

    def fwd_function(self, name, callee):
        ps = self.params(self.rnd.randint(0, 2))
        inh = dict(self.models[callee])
        hard = {}
        if self.rnd.chance(0.4) and inh:
            h = self.rnd.choice(sorted(inh))
            hard[h] = SAMPLE[inh[h][0]]
        hc = "".join(f"{h}={v!r}, " for h, v in hard.items())
        s = self.sig(ps)
        self.lines.append(f"def {name}({s + ', ' if s else ''}**kwargs):\n    return {callee}({hc}**kwargs)\n")
        m = {n: (ty, dv) for n, ty, dv in ps}
        m.update({k: v for k, v in inh.items() if k not in hard})
        self.models[name] = m
        self.patterns[name] = self.patterns[callee] + ["fn_chain"] + (["hard"] if hard else [])
        self.depth[name] = self.depth[callee] + 1

    def klass(self, name, bases):
        rnd = self.rnd
        inh = dict(self.models[bases[0]]) if bases else {}
        ps = self.params(rnd.randint(0, 3))
        kinds = (["none", "pop_strict", "call_fn", "attr_fn", "dict_fn", "method"] if not bases else
                 ["super", "super", "super_star", "hard", "positional", "pop_super", "super_explicit", "classmethod", "none_fwd"])
        kind = rnd.choice(kinds)
        body, extra, kw, pats = [], "", True, [kind]
        m = {n: (ty, dv) for n, ty, dv in ps}
        preset = None
        if kind == "none":
            kw = False
        elif kind == "pop_strict":
            pn = self.fresh(1)
            if pn:
                dv = rnd.randint(0, 5)
                body.append(f"self._{pn[0]} = kwargs.pop('{pn[0]}', {dv})")
                m[pn[0]] = (None, dv)
            body.append("if kwargs: raise TypeError('unexpected keyword argument ' + str(sorted(kwargs)))")
        elif kind in ("call_fn", "attr_fn", "dict_fn", "method"):
            if kind == "method":
                mps = self.params(rnd.randint(1, 2))
                extra = f"    def _setup(self, {self.sig(mps)}):\n        self._vals = ({', '.join(n for n, _, _ in mps)}{',' if mps else ''})\n"
                body.append("self._setup(**kwargs)")
                m.update({n: (ty, dv) for n, ty, dv in mps})
            else:
                fn = f"{name}_fn"
                self.strict_function(fn)
                fm = self.models[fn]
                if kind == "call_fn":
                    body.append(f"self._r = {fn}(**kwargs)")
                    m.update(fm)
                elif kind == "attr_fn":
                    body.append("self._kw = kwargs")
                    use = rnd.choice(["method", "property"])
                    hc = ""
                    if rnd.chance(0.4):
                        # a keyword hard-coded at the call that consumes the stored kwargs is not a parameter
                        h = rnd.choice(sorted(fm))
                        hc = f"{h}={SAMPLE[fm[h][0]]!r}, "
                        fm = {k: v for k, v in fm.items() if k != h}
                        pats.append("hard")
                    extra = (f"    def run(self):\n        return {fn}({hc}**self._kw)\n" if use == "method" else f"    @property\n    def data(self):\n        return {fn}({hc}**self._kw)\n")
                    m.update(fm)
                else:
                    h = rnd.choice(sorted(fm))
                    hv = SAMPLE[fm[h][0]]
                    form = rnd.choice(["dictcall", "update", "literal"])
                    pats.append("dict:" + form)
                    if form == "dictcall":
                        body.append(f"self._kw = dict({h}={hv!r}, **kwargs)")
                        m.update({k: v for k, v in fm.items() if k != h})  # passing h again raises: not a legal parameter
                        preset = h
                    elif form == "update":
                        body += [f"self._kw = dict({h}={hv!r})", "self._kw.update(**kwargs)"]
                        m.update(fm)  # the preset is overridable: offered and legal (its default is the function's own)
                    else:
                        body += [f"self._kw = {{'{h}': {hv!r}}}", "self._kw.update(**kwargs)"]
                        m.update(fm)
                    extra = f"    def run(self):\n        return {fn}(**self._kw)\n"
        elif kind in ("super", "super_star"):
            body.append("super().__init__(*args, **kwargs)" if kind == "super_star" else "super().__init__(**kwargs)")
            m.update(inh)
        elif kind == "super_explicit":
            body.append(f"super({name}, self).__init__(**kwargs)")
            m.update(inh)
        elif kind == "hard":
            hcs = rnd.sample(sorted(inh), min(len(inh), rnd.randint(1, 2))) if inh else []
            hc = "".join(f"{h}={SAMPLE[inh[h][0]]!r}, " for h in hcs)
            body.append(f"super().__init__({hc}**kwargs)")
            m.update({k: v for k, v in inh.items() if k not in hcs})
        elif kind == "positional":
            parent_first = self.first_param.get(bases[0])
            own = self.fresh(1) if parent_first and parent_first in inh else []
            if own:
                ty = inh[parent_first][0] or "int"
                ps = [(own[0], ty, None)] + ps
                ps.sort(key=lambda p: p[2] is not None)
                m = {n: (t, d) for n, t, d in ps}
                body.append(f"super().__init__({own[0]}, **kwargs)")
                m.update({k: v for k, v in inh.items() if k != parent_first})
            else:
                body.append("super().__init__(**kwargs)")
                m.update(inh)
        elif kind == "pop_super":
            pn = self.fresh(1)
            if pn:
                dv = rnd.randint(0, 5)
                body.append(f"self._{pn[0]} = kwargs.pop('{pn[0]}', {dv})")
                m[pn[0]] = (None, dv)
            body.append("super().__init__(**kwargs)")
            m.update(inh)
        elif kind == "classmethod":
            body.append("super().__init__(**kwargs)")
            m.update(inh)
            extra = "    @classmethod\n    def make(cls, **kw):\n        return cls(**kw)\n"
        elif kind == "none_fwd":
            kw = False
            hc = ", ".join(f"{n}={SAMPLE[ty]!r}" for n, (ty, dv) in inh.items() if dv is None)
            body.append(f"super().__init__({hc})")
        for n, _, _ in ps:
            body.append(f"self.{n} = {n}")
        if not body:
            body = ["pass"]
        s = self.sig(ps)
        star = "*args, " if kind == "super_star" else ""
        full = "self" + (", " + s if s else "") + (", " + star + "**kwargs" if kw else "")
        self.lines.append(f"class {name}({', '.join(bases)}):\n    def __init__({full}):\n" + "\n".join("        " + b for b in body) + "\n" + extra)
        self.models[name] = m
        self.patterns[name] = (self.patterns[bases[0]] if bases else []) + pats
        self.depth[name] = (self.depth[bases[0]] if bases else 0) + 1
        self.first_param[name] = ps[0][0] if ps else None
        self.presets = getattr(self, "presets", {})
        inherited = list(self.presets.get(bases[0], [])) if bases and kind not in ("none_fwd",) else []
        if preset or inherited:
            self.presets[name] = sorted(set(inherited + ([preset] if preset else [])))
        if kind == "classmethod":
            self.models[name + ".make"] = dict(m)
            self.patterns[name + ".make"] = self.patterns[name]
            self.depth[name + ".make"] = self.depth[name]

    def diamond(self):
        """cooperative multiple inheritance: Base strict, A(Base), B(Base), C(A, B), all forwarding with super().__init__(**kwargs)"""
        if len([n for n in POOL if n not in self.used]) < 8:
            return  # not enough unused names left for four classes
        t = self.tag
        base, a, b, c = f"D{t}_base", f"D{t}_a", f"D{t}_b", f"D{t}_c"
        own = {}
        # classes without an __init__ of their own in front of / inside the diamond: a mixin listed first, an empty intermediate subclass
        variant = self.rnd.choice(["plain", "plain", "mixin-first", "empty-intermediate"])
        c_bases = [a, b]
        if variant == "mixin-first":
            self.lines.append(f"class D{t}_mixin:\n    def helper(self):\n        return 1\n")
            c_bases = [f"D{t}_mixin", a, b]
        elif variant == "empty-intermediate":
            c_bases = [f"D{t}_a2", b]
        for nm, bases in ((base, []), (a, [base]), (b, [base]), (c, c_bases)):
            if nm == c and variant == "empty-intermediate":
                self.lines.append(f"class D{t}_a2({a}):\n    pass\n")
            ps = self.params(self.rnd.randint(1, 2))
            own[nm] = {n: (ty, dv) for n, ty, dv in ps}
            s = self.sig(ps)
            if nm == base:
                self.lines.append(f"class {nm}:\n    def __init__(self, {s}):\n" + "\n".join(f"        self.{n} = {n}" for n, _, _ in ps) + "\n")
            else:
                self.lines.append(f"class {nm}({', '.join(bases)}):\n    def __init__(self, {s}, **kwargs):\n        super().__init__(**kwargs)\n" + "\n".join(f"        self.{n} = {n}" for n, _, _ in ps) + "\n")
        self.models[base] = dict(own[base])
        self.models[a] = {**own[a], **own[base]}
        self.models[b] = {**own[b], **own[base]}
        self.models[c] = {**own[c], **own[a], **own[b], **own[base]}
        for nm, d in ((base, 1), (a, 2), (b, 2), (c, 3)):
            self.patterns[nm] = ["diamond"] + (["diamond:" + variant] if nm == c and variant != "plain" else [])
            self.depth[nm] = d
        self.multi.add(c)

    def outer(self, inner, base):
        """class Outer(base) whose **kwargs go to the construction of a class of *another* hierarchy - directly or through a function -
        while its own parent gets no kwargs (documented: 'when internally calling some function or instantiating a class')"""
        rnd, t = self.rnd, self.tag
        name = f"O{t}"
        im = dict(self.models[inner])
        ps = self.params(rnd.randint(0, 2))
        m = {n: (ty, dv) for n, ty, dv in ps}
        hard = {}
        if rnd.chance(0.3) and im:
            h = rnd.choice(sorted(im))
            hard[h] = SAMPLE[im[h][0]]
        hc = "".join(f"{h}={v!r}, " for h, v in hard.items())
        via = rnd.choice(["direct", "function"])
        if via == "function":
            fps = self.params(rnd.randint(0, 1))
            fs = self.sig(fps)
            self.lines.append(f"def mk{t}({fs + ', ' if fs else ''}**kw):\n    return {inner}({hc}**kw)\n")
            m.update({n: (ty, dv) for n, ty, dv in fps})
            call = f"self._inner = mk{t}(**kwargs)"
        else:
            call = f"self._inner = {inner}({hc}**kwargs)"
        m.update({k: v for k, v in im.items() if k not in hard})
        body = []
        if base:
            req = ", ".join(f"{n}={SAMPLE[ty]!r}" for n, (ty, dv) in self.models[base].items() if dv is None)
            body.append(f"super().__init__({req})")
        body.append(call)
        body += [f"self.{n} = {n}" for n, _, _ in ps]
        s = self.sig(ps)
        # members that make the inner object consume what it stored, so that the interpreter can confirm the model
        extra = ("    def run(self):\n        r = getattr(self._inner, 'run', None)\n        if r:\n            r()\n"
                 "        if isinstance(getattr(type(self._inner), 'data', None), property):\n            self._inner.data\n")
        self.lines.append(f"class {name}({base or ''}):\n    def __init__(self{', ' + s if s else ''}, **kwargs):\n" + "\n".join("        " + b for b in body) + "\n" + extra)
        self.models[name] = m
        self.patterns[name] = self.patterns[inner] + ["call_cls:" + via] + (["hard"] if hard else [])
        self.depth[name] = self.depth[inner] + 1
        self.presets = getattr(self, "presets", {})
        if self.presets.get(inner):
            self.presets[name] = list(self.presets[inner])

    def member_calls(self):
        """functions whose **kwargs go to a method / static method / class method of a helper class"""
        rnd, t = self.rnd, self.tag
        nm = f"M{t}"
        mem = {k: self.params(rnd.randint(1, 2)) for k in ("meth", "smeth", "cmeth")}

        def ret(ps):
            return f"return ({', '.join(n for n, _, _ in ps)}{',' if ps else ''})"

        self.lines.append(
            f"class {nm}:\n    def __init__(self):\n        pass\n"
            f"    def meth(self, {self.sig(mem['meth'])}):\n        {ret(mem['meth'])}\n"
            f"    @staticmethod\n    def smeth({self.sig(mem['smeth'])}):\n        {ret(mem['smeth'])}\n"
            f"    @classmethod\n    def cmeth(cls, {self.sig(mem['cmeth'])}):\n        {ret(mem['cmeth'])}\n")
        for kind, ps in mem.items():
            fn = f"g{t}_{kind}"
            own = self.params(rnd.randint(0, 1))
            s = self.sig(own)
            call = {"meth": f"inst = {nm}()\n    return inst.meth(**kwargs)", "smeth": f"inst = {nm}()\n    return inst.smeth(**kwargs)",
                    "cmeth": f"return {nm}.cmeth(**kwargs)"}[kind]
            self.lines.append(f"def {fn}({s + ', ' if s else ''}**kwargs):\n    {call}\n")
            self.models[fn] = {n: (ty, dv) for n, ty, dv in own + ps}
            self.patterns[fn] = ["fn_calls_" + kind]
            self.depth[fn] = 2

    def const_cond(self):
        """if GLOBAL: f1(**kwargs) elif not GLOBAL2: f2(**kwargs) else: f3(**kwargs) - only the branch the constants select counts"""
        rnd, t = self.rnd, self.tag
        fns = [f"c{t}_{i}" for i in range(3)]
        for f in fns:
            self.strict_function(f)
        fa, fb = rnd.chance(0.5), rnd.chance(0.5)
        own = self.params(rnd.randint(0, 1))
        s = self.sig(own)
        self.lines.append(f"FLAGA{t} = {fa}\nFLAGB{t} = {fb}\n\ndef cc{t}({s + ', ' if s else ''}**kwargs):\n    if FLAGA{t}:\n        return {fns[0]}(**kwargs)\n"
                          f"    elif not FLAGB{t}:\n        return {fns[1]}(**kwargs)\n    else:\n        return {fns[2]}(**kwargs)\n")
        taken = fns[0] if fa else (fns[1] if not fb else fns[2])
        self.models[f"cc{t}"] = {**{n: (ty, dv) for n, ty, dv in own}, **self.models[taken]}
        self.patterns[f"cc{t}"] = ["const_cond", "strict_fn"]
        self.depth[f"cc{t}"] = 2

    def program(self):
        depth = self.rnd.randint(1, 5)
        names = []
        for d in range(depth):
            nm = f"K{self.tag}_{d}"
            self.klass(nm, [names[-1]] if names else [])
            names.append(nm)
        extra = self.rnd.randint(0, 9)
        if extra <= 2 and len(self.used) <= 12:
            # a second hierarchy, and a class of the first one's family that hands its **kwargs to it
            inner = []
            for d in range(self.rnd.randint(1, 3)):
                nm = f"J{self.tag}_{d}"
                self.klass(nm, [inner[-1]] if inner else [])
                inner.append(nm)
            self.outer(inner[-1], self.rnd.choice(names + [None]))
            return "\n".join(self.lines)
        if extra == 3 and len(self.used) <= 14:
            self.member_calls()
            return "\n".join(self.lines)
        if extra == 4 and len(self.used) <= 14:
            self.const_cond()
            return "\n".join(self.lines)
        if self.rnd.chance(0.5):
            f0 = f"f{self.tag}_0"
            self.strict_function(f0)
            prev = f0
            for i in range(1, self.rnd.randint(1, 3)):
                fi = f"f{self.tag}_{i}"
                self.fwd_function(fi, prev)
                prev = fi
        if self.rnd.chance(0.35):
            self.diamond()
        return "\n".join(self.lines)


@G._memo
def case_strategy():
    def build(draw):
        g = Gen(Chooser(draw), "x")
        src = g.program()
        return {"source": src, "models": {k: {n: [ty, dv] for n, (ty, dv) in m.items()} for k, m in g.models.items()}, "patterns": g.patterns, "depth": g.depth,
                "multi": sorted(g.multi), "presets": getattr(g, "presets", {})}

    return st.composite(lambda draw: build(draw))()


def legal(fn, kw):
    try:
        o = fn(**kw)
        for member in ("run",):
            if hasattr(o, member) and callable(getattr(o, member)):
                getattr(o, member)()
        if isinstance(getattr(type(o), "data", None), property):
            o.data  # noqa: B018
        return True, ""
    except TypeError as ex:
        return False, str(ex)


def run_case(ctx, case):
    import warnings

    from jsonargparse import ArgumentParser
    from jsonargparse._parameter_resolvers import get_signature_parameters

    warnings.simplefilter("ignore")
    mod = PR.load_source(case["source"], "c13")
    ctx.evaluations -= 1
    try:
        for cn, model in case["models"].items():
            if "." in cn:
                owner = getattr(mod, cn.split(".")[0])
                obj, target = getattr(owner, cn.split(".")[1]), (owner, cn.split(".")[1])
            else:
                obj = getattr(mod, cn)
                target = (obj, None)
            base_kw = {k: SAMPLE[ty] for k, (ty, dv) in model.items()}
            ok, err = legal(obj, base_kw)
            extra_ok = [] if not ok else [n for n in POOL if n not in model and legal(obj, {**base_kw, n: 0})[0]]
            if not ok or extra_ok:
                ctx.cls("model-not-confirmed-by-the-interpreter (callable skipped)")
                continue
            ctx.evaluations += 1
            ctx.cls("callable-with-confirmed-model")
            pats = case["patterns"].get(cn, [])
            for pt in set(pats):
                ctx.cls("pattern:" + pt)
            if case["depth"].get(cn, 1) >= 3 or cn in case["multi"] or len(set(pats) - {"strict_fn"}) >= 2:
                ctx.mark_nontrivial((case["source"], cn))
            try:
                params = get_signature_parameters(*target, logger=logging.getLogger("vf-null")) if target[1] else get_signature_parameters(target[0], logger=logging.getLogger("vf-null"))
            except Exception as ex:  # noqa
                ctx.finding(f"C13/resolver-raises:{type(ex).__name__}", {"callable": cn, "error": fmt_exc(ex), "source": short(case["source"], 1200)})
                continue
            got = {p.name: p for p in params}
            preset = set(case.get("presets", {}).get(cn.split(".")[0]) or [])
            extra = sorted(set(got) - set(model))
            missing = sorted(set(model) - set(got))
            last = (pats or ["?"])[-1]
            f26 = sorted(set(extra) & preset)
            if f26:
                ctx.finding("C13/F26/preset-key-of-dict(k=v,**kwargs)-is-offered-although-passing-it-raises", {"callable": cn, "preset": f26})
                extra = sorted(set(extra) - preset)
            if extra:
                # soundness: is passing the extra name really illegal? (the interpreter already said so while confirming the model)
                ctx.finding(f"C13/offered-parameter-is-not-accepted-by-the-code/{last}", {"callable": cn, "extra": extra, "source": short(case["source"], 1500)})
            if missing:
                ctx.finding(f"C13/accepted-parameter-is-not-offered/{last}", {"callable": cn, "missing": missing, "source": short(case["source"], 1500)})
            for k, (ty, dv) in model.items():
                if k in got and ty is not None:
                    p = got[k]
                    if p.annotation is not eval(ty):  # noqa: S307  (type names from the fixed table above)
                        ctx.finding(f"C13/parameter-lost-its-type/{last}", {"callable": cn, "param": k, "expected": ty, "got": repr(p.annotation)})
                    want = inspect._empty if dv is None else eval(str(dv))  # noqa: S307
                    if p.default != want or type(p.default) is not type(want):
                        ctx.finding(f"C13/parameter-lost-its-default/{last}", {"callable": cn, "param": k, "expected": repr(want), "got": repr(p.default)})
            # the options a parser creates are the same set
            if not extra and not missing:
                try:
                    p = ArgumentParser(exit_on_error=False)
                    if inspect.isclass(obj):
                        p.add_class_arguments(obj, "x")
                    elif target[1]:
                        p.add_method_arguments(target[0], target[1], "x")
                    else:
                        p.add_function_arguments(obj, "x")
                    opts = {a.dest[2:] for a in p._actions if a.dest.startswith("x.")}
                    want_opts = set(model) | (preset & set(got))
                    if opts != want_opts:
                        ctx.finding(f"C13/parser-options-differ-from-accepted-parameters/{last}", {"callable": cn, "extra": sorted(opts - want_opts), "missing": sorted(want_opts - opts)})
                except Exception as ex:  # noqa
                    ctx.finding(f"C13/adding-arguments-raises:{type(ex).__name__}", {"callable": cn, "error": fmt_exc(ex)})
        ctx.sample({"source": case["source"][:800], "models": {k: sorted(v) for k, v in case["models"].items()}})
    finally:
        PR.unload(mod)


def body(ctx):
    def f(case):
        ctx.begin(case)
        run_case(ctx, case)
        ctx.end()

    return f


def plan(tier):
    if tier == "quick":
        return [{"n": 500} for _ in range(16)]
    return [{"n": 3000} for _ in range(16)]


def run_shard(spec, ctx):
    run_given(ctx, case_strategy(), body(ctx), spec["n"])


def health(tier, evaluations, nontrivial, classes):
    msgs = []
    ok, bad = classes.get("callable-with-confirmed-model", 0), classes.get("model-not-confirmed-by-the-interpreter (callable skipped)", 0)
    if ok + bad and bad / (ok + bad) > 0.05:
        msgs.append(f"the interpreter did not confirm the model of {bad} of {ok + bad} generated callables")
    for pt in ("super", "super_star", "hard", "positional", "pop_super", "super_explicit", "classmethod", "none_fwd", "pop_strict", "call_fn", "attr_fn", "dict_fn", "method", "fn_chain", "diamond"):
        if classes.get("pattern:" + pt, 0) < 10:
            msgs.append(f"pattern {pt} nearly absent ({classes.get('pattern:' + pt, 0)})")
    return msgs


def self_test():
    src = ("class A:\n    def __init__(self, p0: int, p1: str = 'a'):\n        pass\n"
           "class B(A):\n    def __init__(self, p2: float = 0.5, **kwargs):\n        super().__init__(p0=1, **kwargs)\n")
    mod = PR.load_source(src, "c13self")
    try:
        assert legal(mod.B, {"p2": 1.5, "p1": "x"})[0] and not legal(mod.B, {"p0": 2})[0] and not legal(mod.B, {"p9": 2})[0]
    finally:
        PR.unload(mod)

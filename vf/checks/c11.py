"""C11  Namespace behaves as a nested mapping addressed by dotted keys.

Domain   (i) complete enumeration of short histories over a fixed op alphabet, (ii) Hypothesis RuleBasedStateMachine
         histories up to 40 steps with dotted keys of depth 1-3 from ordinary and method-clash names.
Oracle   the dictionary model of vf/oracle/nsmodel.py updated in lock-step (reference model), compared after every step
         through every public observer (item/step-wise reads, in, get, items/keys/values, as_dict, clone, ==, dict conversions).
A case is the history (list of ops, plain data); ``run_case`` re-executes it without Hypothesis.
"""
import copy
import itertools

from ..core import CaseFailed, HarnessError, fmt_exc, run_machine
from ..oracle import nsmodel as M

ID = "C11"
LEVEL = "exploration"
ENGINE = "hypothesis-stateful + enumeration"
TECHNIQUE = "model-based stateful property testing (Hypothesis RuleBasedStateMachine) plus complete enumeration of short histories, against a nested-dict reference model"
LEVEL_TEXT = ("Every history of <=3 (quick) / <=4 (thorough) operations over a 45-op alphabet and <=4 / <=5 over a reduced one is executed "
              "(complete within that bound), plus thousands of random histories of up to 40 steps; after each step the Namespace is compared "
              "with an independent nested-dict model through every public observer. Exploration, not proof: longer histories and other "
              "values are sampled only.")
LEVEL_NOTE = ("Trusted: the 120-line reference model (self-tested against hand-computed cases on every run) and the reading that a dict value "
              "is a leaf that can be addressed through. Known finding F16 (four signatures) is announced, not suppressed for other inputs.")
RULE = ("cases = operation histories on one Namespace (exhaustive: every history of the stated length over the fixed alphabet; "
        "random: Hypothesis rule-based machine, <=40 steps); after every step the implementation is compared with a nested-dict "
        "reference model through all public observers. non-trivial = the history overwrites a branch by a leaf or a leaf by a "
        "branch, or uses a key segment that clashes with a Namespace method name, or addresses an item through a dict value; "
        "distinct = distinct history (enumerated histories are distinct by construction, random ones by hash)")
ASSUMPTIONS = [
    "a plain dict stored as a value is a leaf whose items may be addressed through with dotted keys (pinned by test_set_item_nested_dict)",
    "a failing del/pop/set may raise KeyError or AttributeError; only 'raises and leaves the state unchanged' is required",
    "update(Namespace) copies leaves only (an empty branch inside the argument adds nothing), as documented by items()",
    "dict_to_namespace(as_dict()) == ns is only required when no dict-valued leaf exists (such a leaf legitimately becomes a branch)",
]
MARK = "​"

CLASH = ["items", "keys", "get", "update", "pop", "clone", "values", "as_dict"]
ORD = ["a", "b", "c", "x1", "self"]


# ------------------------------------------------------------------------------------------------- values
def mk_real(d):
    from jsonargparse import Namespace

    if isinstance(d, dict) and "$ns" in d:
        ns = Namespace()
        for k, v in d["$ns"].items():
            setattr(ns, k, mk_real(v))  # single segment names only
        return ns
    if isinstance(d, dict):
        return {k: mk_real(v) for k, v in d.items()}
    if isinstance(d, list):
        return [mk_real(v) for v in d]
    if isinstance(d, tuple):
        return tuple(mk_real(v) for v in d)
    return d


def mk_model(d):
    if isinstance(d, dict) and "$ns" in d:
        n = M.NS()
        for k, v in d["$ns"].items():
            n[k] = mk_model(v)
        return n
    if isinstance(d, dict):
        return {k: mk_model(v) for k, v in d.items()}
    if isinstance(d, list):
        return [mk_model(v) for v in d]
    if isinstance(d, tuple):
        return tuple(mk_model(v) for v in d)
    return d


def to_model(v, strip_in_dicts=False):
    """structure of a real value as model nodes (reads vars(); strips the clash mark from attribute names)"""
    from jsonargparse import Namespace

    if isinstance(v, Namespace):
        n = M.NS()
        for k, x in vars(v).items():
            n[k[1:] if k[:1] == MARK else k] = to_model(x, strip_in_dicts)
        return n
    if isinstance(v, dict):
        return {(k[1:] if strip_in_dicts and isinstance(k, str) and k[:1] == MARK else k): to_model(x, strip_in_dicts) for k, x in v.items()}
    if isinstance(v, list):
        return [to_model(x, strip_in_dicts) for x in v]
    if isinstance(v, tuple):
        return tuple(to_model(x, strip_in_dicts) for x in v)
    return v


def is_ns_desc(d):
    return isinstance(d, dict) and "$ns" in d


# ------------------------------------------------------------------------------------------------- one step
class Stop(Exception):
    """a listed known finding was hit: real and model may have diverged, the history ends here"""


class State:
    def __init__(self):
        from jsonargparse import Namespace

        self.real = Namespace()
        self.model = M.NS()
        self.flags = set()


def keys_of(op):
    name = op[0]
    if name in ("set", "setattr"):
        return [op[1]]
    if name in ("del", "delattr", "pop", "get", "contains"):
        return [op[1]]
    if name == "update":
        return [k for k, _ in M.m_items(mk_model(op[1]))]
    if name in ("update_key", "update_unset"):
        if is_ns_desc(op[1]):
            return [op[2] + "." + k for k, _ in M.m_items(mk_model(op[1]))] if op[2] else []
        return [op[2]] if op[2] else []
    return []


def note_flags(st, op):
    name = op[0]
    for k in keys_of(op):
        if any(seg in CLASH_ALL for seg in k.split(".")):
            st.flags.add("clash")
        if M.through_dict(st.model, k):
            st.flags.add("through-dict")
    if name in ("set", "setattr", "update_key", "update_unset", "update"):
        newval = mk_model(op[1]) if name != "update" else None
        for k in keys_of(op):
            try:
                parts = M.split(k)
            except KeyError:
                continue
            cur = st.model
            for p in parts[:-1]:
                nxt = cur.get(p) if isinstance(cur, dict) else None
                if p in cur and not isinstance(nxt, dict):
                    st.flags.add("overwrite")  # a leaf on the path is replaced by a branch
                    break
                if nxt is None:
                    break
                cur = nxt
            else:
                if isinstance(cur, dict) and parts[-1] in cur:
                    old = cur[parts[-1]]
                    new_is_branch = isinstance(newval, M.NS) if name in ("set", "setattr") else False
                    if isinstance(old, M.NS) != new_is_branch:
                        st.flags.add("overwrite")


def outcome(fn, model=False):
    try:
        return ("ok", fn())
    except (KeyError, AttributeError) as ex:
        return ("exc", "KeyError" if model else type(ex).__name__)
    except Exception as ex:  # noqa
        if model:
            raise
        return ("exc!", fmt_exc(ex))


def step(ctx, st, op, observe=True):
    """apply one op to implementation and model; report divergences via ctx.finding"""
    from jsonargparse import Namespace, dict_to_namespace, namespace_to_dict

    name = op[0]
    pre_model = st.model
    via_dict = any(M.through_dict(st.model, k) for k in keys_of(op))

    def report(kind, detail):
        opclass = {"get": "read", "contains": "read", "del": "remove", "delattr": "remove", "pop": "remove"}.get(name, "write")
        sig = f"C11/through-dict/{opclass}/{kind}" if via_dict else f"C11/{name}/{kind}"
        if ctx.finding(sig, {"op": op, "detail": detail, "state": repr(st.model)[:300]}):
            raise Stop()

    real, model = st.real, st.model
    if via_dict and name in ("set", "setattr", "update_key", "update_unset") and is_ns_desc(op[2] if name in ("set", "setattr") else op[1]):
        # a branch stored *inside* a dict value has no counterpart in a nested-dictionary model: not generated
        ctx.exclude("namespace-value-written-through-dict")
        return
    if name in ("set", "setattr"):
        rv, mv = mk_real(op[2]), mk_model(op[2])
        if name == "set":
            ri = outcome(lambda: real.__setitem__(op[1], rv))
        else:
            ri = outcome(lambda: setattr(real, op[1], rv))
        snap = copy.deepcopy(model)
        rm = outcome(lambda: M.m_set(model, op[1], mv), True)
    elif name == "del":
        ri = outcome(lambda: real.__delitem__(op[1]))
        snap = copy.deepcopy(model)
        rm = outcome(lambda: M.m_del(model, op[1]), True)
    elif name == "delattr":  # what setattr stored, delattr removes (method-name keys included)
        ri = outcome(lambda: delattr(real, op[1]))
        snap = copy.deepcopy(model)
        rm = outcome(lambda: M.m_del(model, op[1]), True)
    elif name == "pop":
        ri = outcome(lambda: real.pop(op[1], "DFLT"))
        snap = copy.deepcopy(model)
        rm = outcome(lambda: M.m_pop(model, op[1], "DFLT"), True)
    elif name == "update":
        rv, mv = mk_real(op[1]), mk_model(op[1])
        ri = outcome(lambda: real.update(rv) is real)
        snap = copy.deepcopy(model)
        rm = outcome(lambda: (M.m_update(model, mv), True)[1], True)
    elif name in ("update_key", "update_unset"):
        rv, mv = mk_real(op[1]), mk_model(op[1])
        ou = name == "update_unset"
        ri = outcome(lambda: real.update(rv, op[2], only_unset=ou) is real)
        snap = copy.deepcopy(model)
        rm = outcome(lambda: (M.m_update(model, mv, op[2], only_unset=ou), True)[1], True)
    elif name == "get":
        ri = outcome(lambda: real.get(op[1], "DFLT"))
        snap = model
        rm = ("ok", M.m_get(model, op[1]) if _valid(op[1]) and M.m_contains(model, op[1]) else "DFLT")
    elif name == "contains":
        ri = outcome(lambda: op[1] in real)
        snap = model
        rm = ("ok", _valid(op[1]) and M.m_contains(model, op[1]))
    elif name == "clone":
        c = real.clone()
        if not M.same(to_model(c), model):
            report("clone-differs", repr(c))
        st.real = c  # carry on with the clone: it must be a faithful, independent copy
        ri = rm = ("ok", None)
        snap = model
    elif name == "rebuild":
        st.real = Namespace(real)
        ri = rm = ("ok", None)
        snap = model
    elif name == "dictrt":
        if M.has_dict_leaf(model):
            return
        st.real = dict_to_namespace(namespace_to_dict(real))
        ri = rm = ("ok", None)
        snap = model
    else:
        raise HarnessError(f"unknown op {op}")
    real = st.real

    if ri[0] == "exc!":
        report("unexpected-exception-type", ri[1])
        return
    if ri[0] != rm[0]:
        report("raises-but-model-succeeds" if ri[0] == "exc" else "succeeds-but-model-raises", {"impl": ri, "model": rm})
        return
    if ri[0] == "exc":
        # a failed operation leaves the state unchanged
        if not M.same(to_model(real), snap):
            report("failed-op-changed-state", repr(real))
        st.model = snap
        return
    if name in ("pop", "get", "contains", "update", "update_key", "update_unset"):
        if not M.same(to_model(ri[1]), rm[1]):
            report("return-value", {"impl": ri[1], "model": rm[1]})
            return
    if not M.same(to_model(real), st.model):
        if via_dict and M.same(to_model(real, strip_in_dicts=True), st.model):
            report("clash-name-stored-with-mark-inside-dict", {"impl": repr(real), "model": repr(st.model)})
        elif via_dict and name == "update_unset":
            report("only_unset-overwrites-item-inside-dict", {"impl": repr(real), "model": repr(st.model)})
        else:
            report("state-differs", {"impl": repr(real), "model": repr(st.model)})
        return
    if observe:
        bad = observers(real, st.model)
        if bad:
            report("observer:" + bad[0], bad[1])


def _valid(key):
    try:
        M.split(key)
        return True
    except KeyError:
        return False


ABSENT_PROBES = ["zz", "a.zz", "a.b.zz", "items.zz", "zz.items"]


def observers(real, model):
    """compare every public read access with the model; returns (kind, detail) of the first disagreement or None"""
    from jsonargparse import Namespace, dict_to_namespace, namespace_to_dict

    try:
        if real.as_dict() != M.m_as_dict(model) or list(real.as_dict()) != list(M.m_as_dict(model)):
            return "as_dict", real.as_dict()
        for br in (False, True):
            mi = list(M.m_items(model, branches=br))
            ri = list(real.items(br))
            if [k for k, _ in ri] != [k for k, _ in mi] or not all(M.same(to_model(a[1]), b[1]) for a, b in zip(ri, mi)):
                return f"items(branches={br})", ri
            if list(real.keys(br)) != [k for k, _ in mi]:
                return f"keys(branches={br})", list(real.keys(br))
            rv = list(real.values(br))
            if len(rv) != len(mi) or not all(M.same(to_model(a), b[1]) for a, b in zip(rv, mi)):
                return f"values(branches={br})", rv
        for k, v in M.m_items(model, branches=True):
            if k not in real:
                return "contains", k
            if not M.same(to_model(real[k]), v):
                return "getitem", (k, real[k])
            if not M.same(to_model(real.get(k, "DFLT")), v):
                return "get", k
            cur = real
            for seg in k.split("."):  # step by step
                cur = cur[seg]
            if not M.same(to_model(cur), v):
                return "stepwise-getitem", k
            val, parent, leaf = real.get_value_and_parent(k)
            if not M.same(to_model(val), v) or leaf.lstrip(MARK) != k.split(".")[-1]:
                return "get_value_and_parent", k
        for k in ABSENT_PROBES:
            if not M.m_contains(model, k) and not M.through_dict(model, k):
                if k in real or real.get(k, "DFLT") != "DFLT":
                    return "absent-key-visible", k
                try:
                    real[k]
                    return "absent-key-getitem", k
                except KeyError:
                    pass
        for nonstr in (None, 1, 2.5, True):
            if nonstr in real:
                return "contains-nonstr", nonstr
        if MARK in repr(list(real.keys(True))) or MARK in repr(real.as_dict()) or MARK in repr(namespace_to_dict(real)):
            return "clash-mark-leak", repr(real.as_dict())
        if bool(real) != bool(model):
            return "bool", bool(real)
        if len(real.get_sorted_keys()) != len(set(real.get_sorted_keys())):
            return "get_sorted_keys-duplicates", real.get_sorted_keys()
        # clone: equal and independent at every branch (and dict) level
        c = real.clone()
        if not (c == real) or (c != real):
            return "clone-not-equal", repr(c)
        if not M.same(to_model(c), model):
            return "clone-differs", repr(c)
        for k, v in list(M.m_items(model, branches=True)):
            c[k + ".zzprobe" if isinstance(v, M.NS) else k] = "CHANGED"
        c["zzprobe"] = 1
        if not M.same(to_model(real), model):
            return "clone-not-independent", repr(real)
        if model and c == real:
            return "eq-ignores-difference", repr(c)
        for k, v in M.m_items(model):
            if isinstance(v, dict) and not isinstance(v, M.NS):
                c2 = real.clone()
                c2[k]["zzprobe"] = 1
                if not M.same(to_model(real), model):
                    return "clone-shares-dict-leaf", k
                break
        # conversions
        if namespace_to_dict(real) != M.m_as_dict(model):
            return "namespace_to_dict", namespace_to_dict(real)
        rebuilt = Namespace(real)
        if not M.same(to_model(rebuilt), model):
            return "Namespace(ns)", repr(rebuilt)
        back = dict_to_namespace(real.as_dict())
        if back.as_dict() != M.m_as_dict(model):
            return "dict_to_namespace(as_dict).as_dict", repr(back)
        if not M.has_dict_leaf(model):
            if not (back == real) or not M.same(to_model(back), model):
                return "dict_to_namespace(as_dict)!=ns", repr(back)
            flat = Namespace({k: copy.deepcopy(v) for k, v in M.m_items(model)}) if all(
                not isinstance(v, M.NS) for _, v in M.m_items(model)) else None
            # a namespace built from its dotted leaf items holds the same leaves (empty branches cannot be expressed)
            if flat is not None and dict(flat.items()) != dict(real.items()):
                return "Namespace(dotted dict)", repr(flat)
    except Stop:
        raise
    except Exception as ex:  # noqa
        return "observer-raised", fmt_exc(ex)
    return None


PRIVATE = ["_parse_key", "_get_kwargs", "__dict__", "__class__"]  # Namespace's own (inherited) non-public attribute names are names like any other too
CLASH_ALL = set(CLASH) | {"as_flat", "get_sorted_keys", "get_value_and_parent"} | set(PRIVATE)


def run_history(ctx, hist, observe_all=True):
    st = State()
    try:
        for i, op in enumerate(hist):
            note_flags(st, op)
            step(ctx, st, op, observe=observe_all or i == len(hist) - 1)
            if ctx._case_findings:
                break
    except Stop:
        ctx.cls("history-ended-at-known-finding")
    return st


def run_case(ctx, case):
    """replay entry: case = {'history': [...]}"""
    st = run_history(ctx, case["history"])
    if st.flags:
        ctx.mark_nontrivial()


# ------------------------------------------------------------------------------------------------- exhaustive part
def alphabet(full):
    NSV = {"$ns": {}}
    keys = ["a", "a.b", "a.b.c", "items", "a.items", "get.b"] if full else ["a", "a.b", "items", "a.items"]
    ops = []
    for k in keys:
        ops.append(["set", k, 1])
        ops.append(["set", k, {"$ns": {}}])
        if full:
            ops.append(["set", k, {}])
            ops.append(["set", k, {"j": 1}])
            ops.append(["setattr", k, 2])
            ops.append(["update_key", 3, k])
            ops.append(["update_unset", 4, k])
        ops.append(["del", k])
        if full and k in ("a", "items"):
            ops.append(["delattr", k])
        if full or k in ("a", "a.items"):
            ops.append(["pop", k])
    ops.append(["update", {"$ns": {"a": {"$ns": {"b": 5}}}}])
    if full:
        ops.append(["update", {"$ns": {"items": 7, "a": 8}}])
        ops.append(["update_unset", {"$ns": {"b": 6, "keys": 9}}, "a"])
    else:
        ops.append(["update_unset", {"$ns": {"b": 6, "items": 9}}, "a"])
    return ops


def enum_shard(ctx, full, length, part, of):
    ops = alphabet(full)
    n = 0
    idx = 0
    for L in range(1, length + 1):
        for hist in itertools.product(ops, repeat=L):
            idx += 1
            if idx % of != part:
                continue
            hist = list(hist)
            ctx.begin({"history": hist})
            st = run_history(ctx, hist, observe_all=False)  # prefixes are other histories of the enumeration
            if st.flags:
                ctx.mark_nontrivial_enumerated()
                for f in st.flags:
                    ctx.cls("flag:" + f)
            if n < 2 and L == length:
                ctx.sample()
                n += 1
            if not ctx.end(raise_on_fail=False):
                return  # first unlisted failure of this shard: keep it (enumeration order makes it a short one)
    ctx.extra[f"enumerated_alphabet_{'full' if full else 'reduced'}_ops"] = len(ops)
    ctx.extra[f"enumerated_max_len_{'full' if full else 'reduced'}"] = length


# ------------------------------------------------------------------------------------------------- random part
def strategies():
    from hypothesis import strategies as st

    seg = st.one_of(st.sampled_from(ORD), st.sampled_from(ORD), st.sampled_from(CLASH),
                    st.sampled_from(["as_flat", "get_sorted_keys", "d", "d"]), st.sampled_from(PRIVATE))
    key = st.lists(seg, min_size=1, max_size=3).map(".".join)
    bad_key = st.sampled_from(["a b", "a..b", ".a", "a.", "", " "])
    scalar = st.one_of(st.integers(-3, 3), st.sampled_from(["v", "", None, True, 1.5]))
    leafv = st.one_of(scalar, scalar, st.lists(scalar, max_size=2), st.tuples(scalar), st.tuples(scalar, st.lists(scalar, max_size=1)),
                      st.dictionaries(st.sampled_from(["k", "j", "items", "a"]), scalar, max_size=2),
                      st.just({"k": {"j": 2}}), st.lists(st.dictionaries(st.just("k"), scalar, max_size=1), max_size=2),
                      # containers that mix mappings with other values
                      st.sampled_from([[{"k": 1}, 2], [1, {"k": 2}, None], {"p": {"x": 1}, "q": 3}, [[{"k": 1}]]]),
                      # namespaces as values inside containers, one and two container levels down
                      st.sampled_from([[{"$ns": {"k": 1}}], [[{"$ns": {"k": 1}}]], {"p": [{"$ns": {"x": 1}}, 2]}, [({"$ns": {"items": 3}},)], [{"$ns": {"k": 1}}, 2, {"j": {"$ns": {}}}]]))
    name = st.one_of(st.sampled_from(ORD), st.sampled_from(ORD), st.sampled_from(CLASH), st.sampled_from(CLASH), st.sampled_from(PRIVATE))
    nsv = st.recursive(st.dictionaries(name, leafv, max_size=3).map(lambda d: {"$ns": d}),
                       lambda inner: st.dictionaries(name, st.one_of(leafv, inner), max_size=3).map(lambda d: {"$ns": d}), max_leaves=6)
    anyv = st.one_of(leafv, leafv, nsv)
    return key, bad_key, leafv, nsv, anyv


def existing_keys(model, prefix=""):
    """every addressable key of the model: branches, leaves and the items inside dict-valued leaves"""
    out = []
    for k, v in model.items():
        if not isinstance(k, str) or not k or "." in k or " " in k:
            continue
        out.append(prefix + k)
        if isinstance(v, dict):
            out += existing_keys(v, prefix + k + ".")
    return out


def make_machine(ctx):
    from hypothesis import strategies as st
    from hypothesis.stateful import RuleBasedStateMachine, initialize, invariant, precondition, rule

    key, bad_key, leafv, nsv, anyv = strategies()
    anykey = st.one_of(key, key, key, key, key, key, key, key, key, bad_key)

    class NamespaceVsDict(RuleBasedStateMachine):
        def __init__(self):
            super().__init__()
            self.hist = []
            self.case = {"history": self.hist}
            self.st = State()
            self.stopped = False
            ctx.begin(self.case)

        def do(self, op):
            if self.stopped:
                return
            self.hist.append(op)
            note_flags(self.st, op)
            try:
                step(ctx, self.st, op)
            except Stop:
                self.stopped = True
                ctx.cls("history-ended-at-known-finding")
            ctx.cls("op:" + op[0])
            if ctx._case_findings:
                ctx.end()  # raises CaseFailed -> Hypothesis shrinks the history

        @rule(k=anykey, v=anyv)
        def set(self, k, v):
            self.do(["set", k, v])

        @rule(k=key, v=anyv)
        def setattr(self, k, v):
            self.do(["setattr", k, v])

        @rule(k=anykey)
        def delete(self, k):
            self.do(["del", k])

        @rule(k=anykey)
        def pop(self, k):
            self.do(["pop", k])

        @rule(v=nsv)
        def update(self, v):
            self.do(["update", v])

        @rule(v=anyv, k=key)
        def update_key(self, v, k):
            self.do(["update_key", v, k])

        @rule(v=anyv, k=key)
        def update_unset(self, v, k):
            self.do(["update_unset", v, k])

        @rule(k=anykey)
        def get(self, k):
            self.do(["get", k])

        @rule(k=anykey)
        def contains(self, k):
            self.do(["contains", k])

        def existing(self, i):
            ks = existing_keys(self.st.model)
            return ks[i % len(ks)] if ks else "a"

        @rule(i=st.integers(0, 60), what=st.sampled_from(["get", "contains", "del", "pop", "delattr"]))
        def read_or_remove_existing(self, i, what):
            self.do([what, self.existing(i)])

        @rule(i=st.integers(0, 60), v=anyv, what=st.sampled_from(["set", "setattr"]))
        def overwrite_existing(self, i, v, what):
            self.do([what, self.existing(i), v])

        @rule(i=st.integers(0, 60), v=anyv, seg=st.one_of(st.sampled_from(ORD), st.sampled_from(CLASH)),
              what=st.sampled_from(["set", "update_key", "update_unset"]))
        def write_below_existing(self, i, v, seg, what):
            k = self.existing(i) + "." + seg
            self.do(["set", k, v] if what == "set" else [what, v, k])

        @rule()
        def clone(self):
            self.do(["clone"])

        @rule()
        def rebuild(self):
            self.do(["rebuild"])

        @rule()
        def dictrt(self):
            self.do(["dictrt"])

        def teardown(self):
            if self.st.flags:
                ctx.mark_nontrivial()
            for f in self.st.flags:
                ctx.cls("flag:" + f)
            ctx.cls("len:%02d-%02d" % (len(self.hist) // 10 * 10, len(self.hist) // 10 * 10 + 9))
            ctx.sample()
            ctx.end()

    return NamespaceVsDict


# ------------------------------------------------------------------------------------------------- plan / entry points
def plan(tier):
    if tier == "quick":
        return ([{"kind": "enum", "full": True, "len": 3, "part": i, "of": 8} for i in range(8)]
                + [{"kind": "enum", "full": False, "len": 4, "part": i, "of": 4} for i in range(4)]
                + [{"kind": "machine", "n": 250, "steps": 40} for _ in range(16)])
    return ([{"kind": "enum", "full": True, "len": 4, "part": i, "of": 48} for i in range(48)]
            + [{"kind": "enum", "full": False, "len": 5, "part": i, "of": 16} for i in range(16)]
            + [{"kind": "machine", "n": 6000, "steps": 40} for _ in range(16)])


def run_shard(spec, ctx):
    if spec["kind"] == "enum":
        enum_shard(ctx, spec["full"], spec["len"], spec["part"], spec["of"])
        ctx.extra["exhaustive"] = True
    else:
        run_machine(ctx, make_machine(ctx), spec["n"], spec["steps"])


def health(tier, evaluations, nontrivial, classes):
    msgs = []
    for f in ("flag:clash", "flag:overwrite", "flag:through-dict"):
        if classes.get(f, 0) < 50:
            msgs.append(f"class {f} nearly absent ({classes.get(f, 0)})")
    return msgs


def self_test():
    """the model against a plain dict on dict-only histories, and the comparator on hand-made positives/negatives"""
    m = M.NS()
    M.m_set(m, "a.b", 1)
    M.m_set(m, "a.c", 2)
    assert M.m_as_dict(m) == {"a": {"b": 1, "c": 2}}
    assert M.m_get(m, "a.b") == 1 and M.m_contains(m, "a") and not M.m_contains(m, "a.b.c")
    M.m_set(m, "a.b.c", 3)  # leaf replaced by branch
    assert M.m_as_dict(m) == {"a": {"b": {"c": 3}, "c": 2}}
    assert M.m_pop(m, "a.zz", "D") == "D" and M.m_pop(m, "a.c") == 2
    try:
        M.m_del(m, "a.c")
        raise HarnessError("model: del of a missing key must raise")
    except KeyError:
        pass
    assert not M.same(M.NS(a=1), M.NS(a=1.0)) and not M.same(M.NS(a=M.NS()), M.NS(a={})) and M.same(M.NS(a=[1, (2,)]), M.NS(a=[1, (2,)]))
    d = M.NS(d={"k": 1})
    assert M.through_dict(d, "d.j") and not M.through_dict(d, "d") and not M.through_dict(d, "e.j")
    # the comparison machinery must see a seeded difference
    from ..core import Ctx

    c = Ctx(ID, "quick", 0)
    c.known, c.collect = {}, False
    c.begin({"history": []})
    st = State()
    step(c, st, ["set", "a.b", 1])
    st.model["a"]["b"] = 2  # corrupt the model
    step(c, st, ["get", "a.b"])
    if not c._case_findings:
        raise HarnessError("self-test: corrupted model not noticed")

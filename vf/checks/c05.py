"""C05  The same settings give the same configuration through every input channel.

Domain   generated parsers (grammar G without Unions of look-alike members; str/int/float/bool/Enum/restricted leaves, containers,
         dataclasses, class specs, nested groups) x a set of *unambiguous* settings (non-string values, strings only at str-typed
         positions) rendered through: argv '--k=v', argv '--k v', --cfg file, --cfg string, parse_string, parse_path,
         parse_object (nested dict / dotted-key dict / Namespace), environment variables, dotted vs nested spelling; and the JSON
         document of the settings parsed under parser_mode yaml / json / jsonnet / omegaconf.
Oracle   differential: every channel yields a typed-equal configuration, or every channel rejects with ArgumentError.
"""
import copy
import json
import os

from hypothesis import strategies as st

from ..core import fmt_exc, innermost_pkg_frame, run_given, with_spellings, short
from ..gen import parsers as P
from ..gen import types as G
from . import _rt

ID = "C05"
LEVEL = "exploration"
ENGINE = "hypothesis (+ atheris/libFuzzer coverage guidance in 4 thorough shards)"
TECHNIQUE = "differential property-based testing across input channels and parser modes (one logical setting rendered per channel, results compared type for type)"
LEVEL_TEXT = ("Each generated (parser, settings) pair is pushed through up to 11 channels and 4 parser modes; all must agree on the typed "
              "result or all must reject. The renderer passes top-level str raw on argv/env and everything else as JSON text; look-alike strings "
              "are aimed at the YAML resolver tables. One case in five comes from the argument-kinds family (DESIGN 3.3b), taken through object, "
              "string, --cfg, argv and environment. Exploration bounded by the grammars; registered types are covered by C20.")
LEVEL_NOTE = ("Trusted: the channel renderer (its rules are listed in DESIGN 3.3 and were each found necessary by probing) and typed_eq. "
              "Inherent, documented differences are encoded in the comparator: jsonnet has 53-bit numbers, prints integral floats as ints and "
              "sorts object fields; omegaconf interpolation syntax (${..}) is its feature and is not generated.")
RULE = ("case = (parser recipe, settings, invalid?). non-trivial = at least 4 channels were exercised and the settings contain a container "
        "value or a nested key, or the case is an all-channels rejection. distinct = hash of the case")
ASSUMPTIONS = [
    "unambiguous textual form only: non-string values, and strings at str-typed positions (statement of C05)",
    "non-finite floats and NUL have no JSON / command line spelling and are not generated",
    "the '--k v' form is used only when v does not start with '-'",
]

LEAVES = ["str", "int", "float", "bool", "enum:Color", "posint", "nnfloat", "unit", "rstr"]
MODES = ["yaml", "json", "jsonnet", "omegaconf"]


@G._memo
def case_strategy(depth):
    rec = P.recipes(depth, False, classes=True, sub=False, max_args=3, leaves=LEAVES)

    def with_values(r):
        def build(draw):
            vals = draw(P.values_for(r))["values"]
            bad = None
            if vals and draw(st.integers(0, 4)) == 0:
                shapes = P.all_shapes(r)
                name = draw(st.sampled_from(sorted(vals)))
                nm = G.near_miss(shapes[name])
                if nm is not None:
                    v, what = draw(nm)
                    # keep the invalid setting unambiguous too: no strings at non-str positions
                    if not _has_str(v):
                        vals = dict(vals)
                        vals[name] = v
                        bad = what
            return {"recipe": r, "values": vals, "invalid": bad}

        return st.composite(lambda draw: build(draw))()

    return rec.flatmap(with_values)


def _has_str(v):
    if isinstance(v, str):
        return True
    if isinstance(v, dict):
        return any(_has_str(x) for x in v.values())
    if isinstance(v, (list, tuple)):
        return any(_has_str(x) for x in v)
    return False


def unambiguous(shape, v):
    """strings only at str-typed positions (and member names at Enum / restricted-str positions, which are plain words)"""
    k = shape[0]
    if isinstance(v, str):
        if k in ("enum", "rstr"):
            return True
        if k == "opt":  # under Optional a YAML-null spelling is ambiguous by nature
            return v not in ("null", "Null", "NULL", "~", "") and unambiguous(shape[1], v)
        return k == "str"
    if _rt.strlike(shape) and v is not None:
        return False  # a non-string at a str position has no command line spelling that differs from the string
    if k in ("union", "opt") and _has_strlike_member(shape) and v is not None and len(_flat_members(shape)) > 1:
        return False  # as one command line word any text *is* a str: Union[str, int] reads --x=3640 as '3640', first match wins
    if v is None or isinstance(v, (bool, int, float)):
        return True
    if k == "opt":
        return unambiguous(shape[1], v)
    if k == "union":
        return not _has_str(v)
    if k in ("list", "seq", "tuplevar", "set") and isinstance(v, list):
        return all(unambiguous(shape[1], x) for x in v)
    if k in ("dict", "dictint") and isinstance(v, dict):
        return all(unambiguous(shape[1], x) for x in v.values())
    if k == "tuple" and isinstance(v, list) and len(v) == len(shape) - 1:
        return all(unambiguous(t, x) for t, x in zip(shape[1:], v))
    if k in ("dc", "td") and isinstance(v, dict):
        f = {x[0]: x[1] for x in shape[2]}
        return all(n in f and unambiguous(f[n], x) for n, x in v.items())
    if k == "cls":
        return True  # class specs: q/need/t[1] are str-typed parameters
    return not _has_str(v)


def _has_strlike_member(shape):
    if shape[0] in ("union", "opt"):
        return any(_has_strlike_member(m) for m in shape[1:])
    return _rt.strlike(shape)


def _flat_members(shape):
    if shape[0] in ("union", "opt"):
        return [x for m in shape[1:] for x in _flat_members(m)]
    return [shape]


def jtext(v):
    return json.dumps(G.to_jsonable(v), ensure_ascii=False, allow_nan=False)


def channels(recipe, vals, d):
    """-> list of (name, callable(parser) -> cfg)"""
    shapes = P.all_shapes(recipe)
    nested = P.nest(copy.deepcopy(vals))
    doc = jtext(nested)
    items = []
    for name, v in vals.items():
        t = _rt.render_arg(shapes[name], v)
        items.append((name, t))
    ok_text = all(t is not None for _n, t in items)
    out = []
    if ok_text:
        out.append(("argv --k=v", lambda p: p.parse_args([f"--{n}={t}" for n, t in items])))
        if all(not t.startswith("-") for _n, t in items):
            out.append(("argv --k v", lambda p: p.parse_args([x for n, t in items for x in (f"--{n}", t)])))
        env = {"VF_" + n.replace(".", "__").upper(): t for n, t in items}
        out.append(("environment", lambda p: p.parse_env(dict(env))))
    f = os.path.join(d, "settings.json")
    with open(f, "w", encoding="utf-8") as fh:
        fh.write(doc)
    out.append(("--cfg file", lambda p: p.parse_args(["--cfg", f])))
    out.append(("--cfg string", lambda p: p.parse_args(["--cfg", doc])))
    out.append(("parse_string", lambda p: p.parse_string(doc)))
    out.append(("parse_path", lambda p: p.parse_path(f)))
    out.append(("parse_object(nested dict)", lambda p: p.parse_object(copy.deepcopy(nested))))
    out.append(("parse_object(dotted dict)", lambda p: p.parse_object(copy.deepcopy(vals))))

    def as_ns(p):
        from jsonargparse import Namespace

        ns = Namespace()
        for k, v in copy.deepcopy(vals).items():
            ns[k] = v
        return p.parse_object(ns)

    out.append(("parse_object(Namespace)", as_ns))
    return out, doc


def outcome(ctx, fn, p):
    from jsonargparse import ArgumentError

    try:
        return ("ok", _rt.clean(fn(p)))
    except ArgumentError as ex:
        return ("rej", short(str(ex), 160))
    except Exception as ex:  # noqa  (C03's subject; counted)
        ctx.cls(f"escape:{type(ex).__name__}@{innermost_pkg_frame(ex)}")
        return ("rej", "escape " + fmt_exc(ex))


def run_case(ctx, case):
    if case.get("kind") == "kinds":
        from . import _kinds

        return _kinds.run(ctx, case, "C05")
    if case.get("kind") == "subtree":
        return run_subtree(ctx, case)
    recipe = dict(case["recipe"], env=True)
    vals = case["values"]
    shapes = P.all_shapes(recipe)
    if not all(unambiguous(shapes[n], v) for n, v in vals.items()):
        ctx.exclude("settings with a string at a non-str position (ambiguous textual form)")
        return
    if any("\x00" in s for s in _strings(vals)):
        ctx.exclude("NUL")
        return
    if len(repr(vals)) % 3 == 0:  # (a pure function of the case)
        # what a channel returns does not depend on what was asked before: every third case is preceded by a command line that sets
        # the class-typed arguments to *other* specs and is then rejected while its --cfg is being read (on a parser of its own)
        FXP = "vf.gen.fixtures."
        base_spec = {"class_path": FXP + "SubA", "init_args": {"p": 9, "q": "stale"}}

        def stale(sh):
            k = sh[0]
            if k == "cls":
                return base_spec if sh[1] == "Base" else {"class_path": FXP + "Holder", "init_args": {"inner": base_spec, "items": {"stale": 1}}}
            if k == "opt":
                return stale(sh[1])
            if k in ("list", "seq"):
                inner = stale(sh[1])
                return None if inner is None else [inner]
            if k == "dict":
                inner = stale(sh[1])
                return None if inner is None else {"k": inner, "a": inner}
            if k == "tuple":
                inner = stale(sh[1])
                return None if inner is None or len(sh) != 3 else [inner, 0]
            return None

        top, subs = [], []
        for name, sh in shapes.items():
            v = stale(sh)
            if v is not None:
                sub = case.get("subcommand")
                if sub and name.startswith(sub + ".") and name.split(".", 1)[1] in [a[0] for a in (recipe.get("sub") or {}).get(sub, [])]:
                    continue  # (only top-level arguments: the rejected --cfg belongs to the top-level parser)
                top.append(f"--{name}={json.dumps(v)}")
        if top:
            try:
                P.build(recipe).parse_args(top + ["--cfg=[}"])
            except BaseException:  # noqa
                pass
            ctx.cls("preceded-by-a-rejected-command-line")
    with _rt.scratch_dir() as d:
        chans, doc = channels(recipe, vals, d)
        results = []
        for name, fn in chans:
            results.append((name, outcome(ctx, fn, P.build(recipe))))
        ref_name, ref = results[-3]  # parse_object(nested dict): the reference spelling
        for name, r in results:
            ctx.cls(f"channel:{name}:{r[0]}")
            if r[0] != ref[0]:
                ctx.finding(f"C05/accept-reject-differs/{name}-{'accepts' if r[0] == 'ok' else 'rejects'}-but-object-{'accepts' if ref[0] == 'ok' else 'rejects'}",
                            {"channel": name, "result": short(r[1], 200), "object": short(ref[1], 200), "settings": short(vals, 300)})
            elif r[0] == "ok":
                for path, got, want in G.diff(r[1], ref[1], limit=3):
                    nulls = ("null", "Null", "NULL", "~", "")
                    if (want is None and isinstance(got, str) and got in nulls) or (got is None and isinstance(want, str) and want in nulls):
                        ctx.finding("C05/F23/yaml-null-lookalike-str-vs-None-in-a-default-under-Optional", {"channel": name, "path": path})
                        continue
                    ctx.finding(f"C05/value-differs/{name}/{type(want).__name__}->{type(got).__name__}",
                                {"channel": name, "path": path, "object_channel": repr(want)[:160], "this_channel": repr(got)[:160]})
        # the JSON document under the four parser modes
        f = os.path.join(d, "settings.json")
        mode_results = []
        for mode in MODES:
            if mode == "omegaconf" and "${" in doc:
                ctx.exclude("omegaconf interpolation syntax")
                continue
            if mode == "jsonnet" and not _jsonnet_safe(vals):
                ctx.exclude("jsonnet: number outside 53 bits")
                continue
            p = P.build(recipe, parser_mode=mode)
            mode_results.append((mode, outcome(ctx, lambda q: q.parse_string(doc), p)))
        if mode_results:
            mref_name, mref = mode_results[0]
            for mode, r in mode_results:
                ctx.cls(f"mode:{mode}:{r[0]}")
                if r[0] != mref[0]:
                    ctx.finding(f"C05/parser-mode/accept-reject-differs/{mode}-{'accepts' if r[0] == 'ok' else 'rejects'}-but-{mref_name}-{'accepts' if mref[0] == 'ok' else 'rejects'}",
                                {"mode": mode, "doc": short(doc, 300), "result": short(r[1], 200), "reference": short(mref[1], 200)})
                elif r[0] == "ok":
                    for path, got, want in G.diff(r[1], mref[1], limit=3):
                        if mode == "jsonnet" and path.endswith("<key order>"):
                            continue  # jsonnet prints object fields sorted (inherent)
                        ctx.finding(f"C05/parser-mode/value-differs/{mode}/{type(want).__name__}->{type(got).__name__}",
                                    {"mode": mode, "path": path, "yaml_mode": repr(want)[:160], "this_mode": repr(got)[:160], "doc": short(doc, 200)})
    n_chan = len(results)
    container = any(isinstance(v, (list, dict)) for v in vals.values()) or any("." in n for n in vals)
    if (n_chan >= 4 and container) or (vals and all(r[1][0] == "rej" for r in results)):
        ctx.mark_nontrivial()
    ctx.cls("invalid-setting" if case.get("invalid") else "valid-setting")
    ctx.sample()


# ------------------------------------------------------------------------------------------------- subcommand trees
@G._memo
def subtree_case_strategy():
    """settings for ONE path of a generated tree of subcommands (trees, builder and environment naming shared with C17): options of every
    parser on the path; the choice at each level either named explicitly or left to be inferred from the section that has settings"""
    from . import c17

    top = st.fixed_dictionaries({"opts": st.dictionaries(st.sampled_from(c17.OPTS), st.integers(0, 9), max_size=2), "required": st.just(True),
                                 "subs": st.dictionaries(st.sampled_from(c17.NAMES), c17.node(1), min_size=1, max_size=3)})

    def with_path(tree):
        def build(draw):
            path, levels, n = [], [], tree
            while True:
                vals = {o: draw(st.integers(10, 19)) for o in n["opts"] if draw(st.booleans())}
                levels.append(vals)
                if not n["subs"] or (not n["required"] and path and draw(st.integers(0, 3)) == 0):
                    break
                nm = draw(st.sampled_from(sorted(n["subs"])))
                path.append(nm)
                n = n["subs"][nm]
            return {"kind": "subtree", "tree": tree, "path": path, "levels": levels, "named": [draw(st.booleans()) for _ in path]}

        return st.composite(lambda draw: build(draw))()

    return top.flatmap(with_path)


def run_subtree(ctx, case):
    """the same settings through every channel of a parser with nested subcommands"""
    import warnings

    from jsonargparse import ArgumentError

    from . import c17

    warnings.simplefilter("ignore")
    tree, path, levels = case["tree"], case["path"], case["levels"]

    def doc(named):
        """nested document; a level's choice is named where asked for, and always where the section below would have no leaf"""
        def rec(i):
            d = dict(levels[i])
            if i < len(path):
                below = rec(i + 1)
                d[path[i]] = below
                if named[i] or not c17.hasleaf(below):
                    d["sub"] = path[i]
            return d

        return rec(0)

    def bare(i=0):
        """only the option values: no choice is named and a section without a leaf is left out (the command line names the path)"""
        d = dict(levels[i])
        if i < len(path):
            below = bare(i + 1)
            if c17.hasleaf(below):
                d[path[i]] = below
        return d

    full = doc([True] * len(path))
    part = doc(case["named"])
    argv = []
    for i, vals in enumerate(levels):
        argv += [f"--{o}={v}" for o, v in vals.items()]
        if i < len(path):
            argv.append(path[i])
    envmap = c17.env_vars(full)
    with _rt.scratch_dir() as d:
        f = os.path.join(d, "settings.json")
        with open(f, "w") as fh:
            json.dump(part, fh)

        def via_environ(default_env_late, names_on_argv=False):
            old = dict(os.environ)
            os.environ.update({k: v for k, v in envmap.items() if not (names_on_argv and k.endswith("_SUB"))})
            try:
                return c17.build(tree, default_env=True, late=default_env_late).parse_args(list(path) if names_on_argv else [])
            finally:
                os.environ.clear()
                os.environ.update(old)

        chans = [("parse_object(named)", lambda: c17.build(tree).parse_object(copy.deepcopy(full))),
                 ("parse_object", lambda: c17.build(tree).parse_object(copy.deepcopy(part))),
                 ("parse_string", lambda: c17.build(tree).parse_string(json.dumps(part))),
                 ("parse_path", lambda: c17.build(tree).parse_path(f)),
                 ("--cfg string", lambda: c17.build(tree).parse_args(["--cfg", json.dumps(part)])),
                 ("--cfg file", lambda: c17.build(tree).parse_args(["--cfg", f])),
                 ("argv", lambda: c17.build(tree).parse_args(list(argv))),
                 ("--cfg string + names on argv", lambda: c17.build(tree).parse_args(["--cfg", json.dumps(part)] + list(path))),
                 ("--cfg string with the option values only + names on argv", lambda: c17.build(tree).parse_args((["--cfg", json.dumps(bare())] if bare() else []) + list(path))),
                 ("parse_env(mapping)", lambda: c17.build(tree).parse_env(dict(envmap))),
                 ("environment", lambda: via_environ(False)),
                 ("environment (default_env set late)", lambda: via_environ(True)),
                 ("option values in the environment + names on argv", lambda: via_environ(False, True)),
                 ("option values in the environment + names on argv (default_env set late)", lambda: via_environ(True, True))]
        results = []
        for name, fn in chans:
            try:
                results.append((name, ("ok", c17.norm(fn()))))
            except ArgumentError as ex:
                results.append((name, ("rej", short(str(ex), 160))))
            except Exception as ex:  # noqa
                ctx.cls(f"escape:{type(ex).__name__}@{innermost_pkg_frame(ex)}")
                results.append((name, ("rej", "escape " + fmt_exc(ex))))
    ref = results[0][1]
    for name, r in results:
        ctx.cls(f"subtree:{name}:{r[0]}")
        if r[0] != ref[0]:
            ctx.finding(f"C05/subcommands/accept-reject-differs/{name}-{'accepts' if r[0] == 'ok' else 'rejects'}-but-object-{'accepts' if ref[0] == 'ok' else 'rejects'}",
                        {"channel": name, "result": short(r[1], 300), "object": short(ref[1], 300), "settings": short(full, 300)})
        elif r[0] == "ok" and r[1] != ref[1]:
            ctx.finding(f"C05/subcommands/value-differs/{name}", {"channel": name, "this_channel": short(r[1], 300), "object_channel": short(ref[1], 300), "settings": short(full, 300)})
    if len(path) >= 2 or not all(case["named"]):
        ctx.mark_nontrivial()
    ctx.cls("subtree-depth:%d" % len(path))
    ctx.sample()


def _strings(v):
    if isinstance(v, str):
        yield v
    elif isinstance(v, dict):
        for k, x in v.items():
            if isinstance(k, str):
                yield k
            yield from _strings(x)
    elif isinstance(v, (list, tuple)):
        for x in v:
            yield from _strings(x)


def _jsonnet_safe(v):
    if isinstance(v, bool):
        return True
    if isinstance(v, int):
        return abs(v) < 2**53
    if isinstance(v, float):
        return v != int(v) if abs(v) < 2**53 else False  # integral doubles are printed as ints by jsonnet: inherent
    if isinstance(v, dict):
        return all(_jsonnet_safe(x) for x in v.values())
    if isinstance(v, (list, tuple)):
        return all(_jsonnet_safe(x) for x in v)
    return True


def body(ctx):
    def f(case):
        ctx.begin(case)
        run_case(ctx, case)
        ctx.end()

    return f


def plan(tier):
    if tier == "quick":
        return [{"n": 250, "depth": 2} for _ in range(16)]
    return [{"n": 3000, "depth": 2 if i % 2 else 3} for i in range(12)] + [{"kind": "atheris", "n": 5000, "depth": 2} for _ in range(4)]


def run_shard(spec, ctx):
    from . import _kinds

    main = case_strategy(spec["depth"])
    strategy = with_spellings(st.integers(0, 5).flatmap(lambda i: _kinds.case_strategy() if i == 0 else subtree_case_strategy() if i == 1 else main))
    if spec.get("kind") == "atheris":
        from ..core import run_atheris

        ctx.cls("engine:atheris")
        return run_atheris(ctx, strategy, body(ctx), spec["n"], flush_every=500)
    run_given(ctx, strategy, body(ctx), spec["n"])


def health(tier, evaluations, nontrivial, classes):
    msgs = []
    for c in ("channel:argv --k=v:ok", "channel:argv --k v:ok", "channel:environment:ok", "channel:--cfg file:ok", "mode:jsonnet:ok", "mode:omegaconf:ok",
              "channel:parse_object(nested dict):rej", "channel:argv --k=v:rej"):
        if classes.get(c, 0) < 15:
            msgs.append(f"class {c} nearly absent ({classes.get(c, 0)})")
    return msgs


def self_test():
    assert unambiguous(["list", ["int"]], [1, 2]) and not unambiguous(["list", ["int"]], ["1"]) and unambiguous(["dict", ["str"]], {"a": "1e3"})
    assert not unambiguous(["opt", ["int"]], "null") and not unambiguous(["opt", ["str"]], "null") and unambiguous(["opt", ["str"]], "1e3")
    assert jtext({"a": [1, "é"]}) == '{"a": [1, "é"]}'

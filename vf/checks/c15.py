"""C15  A linked argument always equals the function of its sources.

Domain   link sets over one parser (single and multiple sources, a group-valued source, targets that are plain arguments, a parameter of
         a class group, init_args of a class argument, init_args of the items of a list of classes; compute functions from a small pure
         library) x source values from the command line, a config, the environment and defaults x a value *also supplied for the target*
         through a config / object / the enclosing spec, or through the target's own option x class changes of the class argument and
         0-2 list items (incl. a class that lacks the linked parameter).
Oracle   invariant on every successful parse: cfg[target] == f(final source values) computed by the harness; the target is not required;
         the option of a plain-argument target is rejected; the target is absent from dump in every format; parse_string(dump(cfg))
         reconstructs the same configuration; invalid link sets (chains, double targets) raise ValueError when added.
"""
import copy
import json
import os

from hypothesis import strategies as st

from ..core import fmt_exc, innermost_pkg_frame, run_given, short
from ..gen import fixtures as F
from ..gen import types as G
from . import _rt

ID = "C15"
LEVEL = "exploration"
ENGINE = "hypothesis"
TECHNIQUE = "property-based invariant testing: target == f(sources) recomputed by the harness over generated link sets, source channels and target overrides; dump / re-parse clauses as round trips"
LEVEL_TEXT = ("Thousands of generated (link set, inputs) pairs per run: sources set through argv, config, environment or defaults, targets "
              "additionally supplied through every side door; the harness recomputes each compute function on the parsed source values. "
              "Exploration bounded by the seven link kinds and their combinations.")
LEVEL_NOTE = ("Trusted: the seven pure compute functions and the table that says which keys are targets. Classes that lack the linked parameter "
              "are part of the generator (the link is documented as ignored for them). Known finding F17 (targets inside list items stay in the "
              "dump) is recorded by a narrow signature.")
RULE = ("case = (link set, inputs). non-trivial = a source comes from a non-default channel and (a value is also supplied for a target, or the "
        "class of a class argument / list item is changed, or the link has several sources or a group source). distinct = hash of the case")
ASSUMPTIONS = [
    "a link into init_args is ignored for a class that does not have the parameter (documented)",
]
FX = "vf.gen.fixtures."
LINKSETS = [["ab_c", "a_d"], ["g_c", "a_d", "a_sn"], ["a_d", "a_sn", "b_lsn"], ["a_d", "gu_gw"], ["ab_c", "a_d", "b_gv", "a_sn", "b_lsn"], ["a_sn"], ["b_lsn", "gu_gw"], ["g_c", "a_sn", "b_lsn"], ["encw_e"], ["encw_e", "a_d", "ab_c"]]
TARGET_KEYS = {"ab_c": ["c"], "g_c": ["c"], "a_d": ["d"], "gu_gw": ["g.w"], "b_gv": ["g.v"], "a_sn": ["s.init_args.n"], "b_lsn": [], "encw_e": ["e"]}


def add2(a, b):
    return a + b


def grpsum(g):
    return (g["u"] + g["v"]) if isinstance(g, dict) else (g.u + g.v)


def mk(links):
    from typing import List

    from jsonargparse import ArgumentParser

    p = ArgumentParser(exit_on_error=False, prog="app", env_prefix="APP", default_env=True)
    p.add_argument("--cfg", action="config")
    p.add_argument("--a", type=int, default=1)
    p.add_argument("--b", type=int, default=2)
    p.add_argument("--c", "-c", "--c-alt", type=int)  # a target may have several spellings: every one of them is the target's option
    p.add_argument("--d", "--dee", type=int, required=True)
    p.add_class_arguments(F.LGrp, "g")
    p.add_argument("--s", type=F.LSub, default={"class_path": FX + "LSub"})
    p.add_argument("--ls", type=List[F.LSub], default=[])
    if "encw_e" in links:  # a source that is an init arg of a class argument and may be None
        from typing import Optional

        p.add_argument("--enc", type=F.LEnc, default={"class_path": FX + "LEnc"})
        p.add_argument("--e", type=Optional[int], default=5)
    for l in links:
        if l == "encw_e":
            p.link_arguments("enc.init_args.width", "e")
        elif l == "ab_c":
            p.link_arguments(("a", "b"), "c", compute_fn=add2)
        elif l == "a_d":
            p.link_arguments("a", "d")
        elif l == "g_c":
            p.link_arguments("g", "c", compute_fn=grpsum)
        elif l == "a_sn":
            p.link_arguments("a", "s.init_args.n")
        elif l == "b_lsn":
            p.link_arguments("b", "ls.init_args.n")
        elif l == "gu_gw":
            p.link_arguments("g.u", "g.w")
        elif l == "b_gv":
            p.link_arguments("b", "g.v")
    return p


@G._memo
def case_strategy():
    classes = [None, "LSub", "LSub2", "LSub3"]

    def build(draw):
        links = draw(st.sampled_from(LINKSETS))
        puts = []
        for k in ("a", "b", "g.u", "g.v"):
            if draw(st.booleans()) and not (k == "g.v" and "b_gv" in links):
                puts.append([k, draw(st.sampled_from(["argv", "cfg", "env"])), draw(st.integers(0, 9))])
        if "encw_e" in links and draw(st.integers(0, 3)) > 0:
            puts.append(["enc.init_args.width", draw(st.sampled_from(["argv", "cfg"])), draw(st.sampled_from([None, None, 3, 0]))])
            if draw(st.booleans()):  # an override of an override
                puts.append(["enc.init_args.width", "argv", draw(st.sampled_from([None, None, 4]))])
        cls = draw(st.sampled_from(classes))
        ls = draw(st.lists(st.sampled_from(classes[1:]), max_size=2))
        supplied = None
        if draw(st.booleans()):
            t = draw(st.sampled_from(["c", "d", "s.n", "g.w", "g.v", "ls.n"] + (["e", "e"] if "encw_e" in links else [])))
            how = draw(st.sampled_from(["cfg", "cfg", "object", "option"]))
            supplied = [t, how]
        cls_late = draw(st.booleans())  # the class of --s is changed after its init_args were touched
        return {"links": links, "puts": puts, "cls": cls, "ls": ls, "supplied": supplied, "cls_late": cls_late,
                "sub": draw(st.integers(0, 2)) == 0,  # the linked parser is attached as a subcommand of a root parser
                "deep": draw(st.booleans()),  # ... two levels down, below a parser without links
                "channel": draw(st.sampled_from(["argv", "argv", "object", "string"]))}

    return st.composite(lambda draw: build(draw))()


def target_applicable(case, t):
    links, cls = case["links"], case["cls"]
    if t == "c":
        return "ab_c" in links or "g_c" in links
    if t == "d":
        return "a_d" in links
    if t == "s.n":
        return "a_sn" in links and cls in (None, "LSub", "LSub2")
    if t == "g.w":
        return "gu_gw" in links
    if t == "g.v":
        return "b_gv" in links
    if t == "e":
        return "encw_e" in links
    if t == "ls.n":
        return "b_lsn" in links and any(c != "LSub3" for c in case["ls"])
    return False


def run_case(ctx, case):
    import warnings

    from jsonargparse import ArgumentError, Namespace

    warnings.simplefilter("ignore")
    links = case["links"]
    p = mk(links)
    argv, cfgd, env = [], {}, {}
    for k, how, v in case["puts"]:
        raw = json.dumps(v)
        if how == "argv":
            argv.append(f"--{k}={raw}")
        elif how == "env":
            env["APP_" + k.replace(".", "__").upper()] = raw
        else:
            cur = cfgd
            parts = k.split(".")
            for q in parts[:-1]:
                cur = cur.setdefault(q, {})
            cur[parts[-1]] = v
    if "a_d" not in links:
        argv.append("--d=5")  # d is a required argument unless a link feeds it
    cls_args = [f"--s={FX}{case['cls']}"] if case["cls"] else []
    ls_args = ["--ls+=" + FX + c for c in case["ls"]]
    sup = case["supplied"]
    option_on_plain_target = None
    tgt_cfg = {}
    obj_channel = False
    if sup and target_applicable(case, sup[0]):
        t, how = sup
        spec = {"e": {"e": 77}, "c": {"c": 77}, "d": {"d": 77}, "s.n": {"s": {"init_args": {"n": 77}}}, "g.w": {"g": {"w": 77}}, "g.v": {"g": {"v": 77}},
                "ls.n": {"ls": [{"class_path": FX + c, "init_args": ({"n": 77} if c != "LSub3" else {})} for c in case["ls"]]}}[t]
        if how == "option":
            if t in ("c", "d", "e"):
                spell = {"e": ["--e=77", "--e 77"], "c": ["--c=77", "-c=77", "--c-alt=77", "-c 77"], "d": ["--d=77", "--dee=77", "--dee 77"]}[t]
                option_on_plain_target = spell[(len(case["puts"]) + len(case["ls"]) + sum(x[2] or 0 for x in case["puts"])) % len(spell)]  # (a pure function of the case)
                ctx.cls("target-option-spelling:" + option_on_plain_target.split("=")[0].split(" ")[0])
            elif t in ("g.w", "g.v"):
                option_on_plain_target = f"--{t}=77"
            elif t == "s.n":
                argv.append("--s.init_args.n=77")
            else:
                tgt_cfg = spec
                ls_args = []
        else:
            tgt_cfg = spec
            if t == "ls.n":
                ls_args = []
            obj_channel = how == "object"
        ctx.cls("target-value-supplied:" + t + ":" + how)
    full = copy.deepcopy(cfgd)
    for k, v in tgt_cfg.items():
        if isinstance(v, dict) and isinstance(full.get(k), dict):
            full[k].update(v)
        else:
            full[k] = v
    args = (["--cfg", json.dumps(full)] if full and not obj_channel else []) + (argv + cls_args if case["cls_late"] else cls_args + argv) + ls_args
    old = dict(os.environ)
    os.environ.update(env)
    try:
        # the option of a plain-argument target is rejected
        if option_on_plain_target:
            try:
                p.parse_args(args + option_on_plain_target.split(" "))
                ctx.finding("C15/option-of-a-link-target-accepted", {"option": option_on_plain_target, "links": links})
            except ArgumentError:
                ctx.cls("option-of-target-rejected")
            except Exception as ex:  # noqa
                ctx.cls("escape (C03): " + type(ex).__name__)
        channel = "object" if obj_channel else case.get("channel", "argv")
        if channel != "argv" and option_on_plain_target is None and not obj_channel and any(x.startswith("--s.init_args") for x in argv):
            channel = "argv"
        root = None
        if case.get("sub"):
            from jsonargparse import ArgumentParser

            root = ArgumentParser(exit_on_error=False, prog="app", env_prefix="APP", default_env=False)
            root.add_argument("--top", type=int, default=0)
            if case.get("deep"):
                # two levels: only the leaf has links, the parser in between has none
                mid = ArgumentParser(exit_on_error=False)
                mid.add_argument("--mid", type=int, default=0)
                root.add_subcommands(required=True).add_subcommand("run", mid)
                mid.add_subcommands(required=True).add_subcommand("fit", p)
                ctx.cls("as-nested-subcommand:" + channel)
            else:
                root.add_subcommands(required=True).add_subcommand("fit", p)
            ctx.cls("as-subcommand:" + channel)
        try:
            if channel != "argv":
                obj = copy.deepcopy(full)
                if case["cls"]:
                    obj.setdefault("s", {})
                    if isinstance(obj["s"], dict):
                        obj["s"]["class_path"] = FX + case["cls"]
                if ls_args:
                    obj["ls"] = [{"class_path": FX + c} for c in case["ls"]]
                for k, how, v in case["puts"]:
                    if how in ("argv", "cfg"):
                        cur = obj
                        parts = k.split(".")
                        for q in parts[:-1]:
                            cur = cur.setdefault(q, {})
                        cur[parts[-1]] = v
                if "a_d" not in links:
                    obj.setdefault("d", 5)
                for k, how, v in case["puts"]:
                    if how == "env" and root is not None:  # (environment names differ below a subcommand: routed through the object)
                        cur = obj
                        parts = k.split(".")
                        for q in parts[:-1]:
                            cur = cur.setdefault(q, {})
                        cur[parts[-1]] = v
                if root is not None:
                    robj = {"subcommand": "fit", "fit": obj}
                    if case.get("deep"):
                        robj = {"subcommand": "run", "run": robj}
                    cfg_root = root.parse_object(robj) if channel == "object" else root.parse_string(json.dumps(robj))
                    cfg = cfg_root.run.fit if case.get("deep") else cfg_root.fit
                else:
                    cfg = mk(links).parse_object(obj) if channel == "object" else mk(links).parse_string(json.dumps(obj))
            elif root is not None:
                extra = [f"--{k}={json.dumps(v)}" for k, how, v in case["puts"] if how == "env"]
                cfg_root = root.parse_args((["run"] if case.get("deep") else []) + ["fit"] + args + extra)
                cfg = cfg_root.run.fit if case.get("deep") else cfg_root.fit
            else:
                cfg = p.parse_args(args)
        except ArgumentError as ex:
            # the target is never required from the user; nothing else here should make a valid input fail
            ctx.finding("C15/valid-input-rejected" + ("/target-reported-as-required" if "required" in str(ex) else ""), {"error": short(str(ex), 300), "args": args, "links": links})
            return
        except Exception as ex:  # noqa
            ctx.cls(f"escape (C03): {type(ex).__name__}@{innermost_pkg_frame(ex)}")
            return
    finally:
        os.environ.clear()
        os.environ.update(old)
    ctx.cls("parsed")
    # invariants, recomputed by the harness from the final source values
    for l in links:
        try:
            if l == "encw_e":
                ok = cfg.e == cfg.enc.init_args.width and type(cfg.e) is type(cfg.enc.init_args.width)
                ctx.cls("class-init-arg source is None" if cfg.enc.init_args.width is None else "class-init-arg source is a number")
            elif l == "ab_c":
                ok = cfg.c == add2(cfg.a, cfg.b)
            elif l == "a_d":
                ok = cfg.d == cfg.a
            elif l == "g_c":
                ok = cfg.c == cfg.g.u + cfg.g.v
            elif l == "a_sn":
                has_n = not cfg.s.class_path.endswith("LSub3")
                ok = (cfg.s.init_args.n == cfg.a) if has_n else ("n" not in cfg.s.get("init_args", Namespace()))
            elif l == "b_lsn":
                ok = all((x.init_args.n == cfg.b) if not x.class_path.endswith("LSub3") else ("n" not in x.get("init_args", Namespace())) for x in cfg.ls)
            elif l == "gu_gw":
                ok = cfg.g.w == cfg.g.u
            elif l == "b_gv":
                ok = cfg.g.v == cfg.b
        except Exception as ex:  # noqa
            ok = "raises " + fmt_exc(ex)
        if ok is not True:
            ctx.finding(f"C15/target-differs-from-function-of-sources/{l}", {"link": l, "check": str(ok)[:120], "cfg": short(cfg, 400), "args": args, "env": env})
    # dumps exclude targets; re-parsing reconstructs them
    dumper, whole = (root, cfg_root) if root is not None else (p, cfg)
    for fmt in _rt.FORMATS:
        try:
            d = dumper.dump(copy.deepcopy(whole), format=fmt, skip_none=False)
        except Exception as ex:  # noqa
            ctx.finding(f"C15/dump-raises:{type(ex).__name__}", {"error": fmt_exc(ex)})
            continue
        if fmt == "json":
            dd = json.loads(d)
            if root is not None:
                dd = (dd.get("run", {}) if case.get("deep") else dd).get("fit", {})
            for l in links:
                for key in TARGET_KEYS[l]:
                    cur, present = dd, True
                    for q in key.split("."):
                        if isinstance(cur, dict) and q in cur:
                            cur = cur[q]
                        else:
                            present = False
                            break
                    if present:
                        ctx.finding(f"C15/target-appears-in-dump/{l}", {"key": key, "dump": short(d, 300)})
                if l == "b_lsn" and any("n" in (x.get("init_args") or {}) for x in dd.get("ls") or []):
                    ctx.finding("C15/F17/link-target-inside-list-of-class-items-stays-in-the-dump", {"dump": short(d, 300)})
        try:
            if root is not None:
                from jsonargparse import ArgumentParser

                root2 = ArgumentParser(exit_on_error=False, prog="app", env_prefix="APP", default_env=False)
                root2.add_argument("--top", type=int, default=0)
                if case.get("deep"):
                    mid2 = ArgumentParser(exit_on_error=False)
                    mid2.add_argument("--mid", type=int, default=0)
                    root2.add_subcommands(required=True).add_subcommand("run", mid2)
                    mid2.add_subcommands(required=True).add_subcommand("fit", mk(links))
                else:
                    root2.add_subcommands(required=True).add_subcommand("fit", mk(links))
                c2 = root2.parse_string(d)
            else:
                c2 = mk(links).parse_string(d)
        except Exception as ex:  # noqa
            ctx.finding(f"C15/dump-does-not-re-parse/{fmt}:{type(ex).__name__}", {"error": fmt_exc(ex), "dump": short(d, 300)})
            continue
        ca, cb = _rt.clean(c2), _rt.clean(whole)
        for c_ in (ca, cb):
            c_.pop("fit.cfg", None)
            c_.pop("run.fit.cfg", None)
        df = [x for x in G.diff(ca, cb, limit=6) if not x[0].endswith("<key order>")]  # where a reconstructed target lands in the key order is not a value
        if df:
            ctx.finding(f"C15/re-parsed-dump-differs/{fmt}", {"diff": short(df, 300), "dump": short(d, 300)})
    nondefault = any(how != "default" for _k, how, _v in case["puts"])
    if nondefault and (sup or case["cls"] or case["ls"] or any(l in links for l in ("ab_c", "g_c"))):
        ctx.mark_nontrivial()
    for l in links:
        ctx.cls("link:" + l)
    ctx.sample()


def invalid_link_sets(ctx):
    """chains and double targets must be refused when the link is added"""
    from jsonargparse import ArgumentParser

    bad = []
    for names in (dict(a="a", b="b", c="c", d="d"), dict(a="alpha", b="beta.x", c="gamma", d="delta_long")):  # (guards must not depend on the length of a name)
        a, b, c, d = names["a"], names["b"], names["c"], names["d"]
        bad += [
            ("chain: target used as source", names, [(a, c), (c, d)]),
            ("chain: source is a target", names, [(a, d), (d, c)]),
            ("chain declared consumer first: target is the source of an earlier link", names, [(c, d), (a, c)]),
            ("chain declared consumer first, two-source consumer", names, [((c, b), d), (a, c)]),
            ("chain through a two-source link", names, [((a, b), c), (c, d)]),
            ("same target twice", names, [(a, c), (b, c)]),
            ("unknown source", names, [("zz", c)]),
            ("unknown target", names, [(a, "zz")]),
        ]
    for name, names, links in bad:
        case = {"kind": "invalid-link-set", "name": name, "links": [[list(s_) if isinstance(s_, tuple) else s_, t_] for s_, t_ in links]}
        ctx.begin(case)
        p = ArgumentParser(exit_on_error=False)
        for k in names.values():
            p.add_argument("--" + k, type=int, default=0)
        err = None
        try:
            for s_, t_ in links:
                p.link_arguments(s_, t_, compute_fn=(add2 if isinstance(s_, tuple) else None))
        except ValueError as ex:
            err = ex
        except Exception as ex:  # noqa
            ctx.finding(f"C15/invalid-link-set/raises-{type(ex).__name__}-instead-of-ValueError", {"name": name, "error": fmt_exc(ex)})
            err = ex
        if err is None:
            ctx.finding("C15/invalid-link-set-accepted", {"name": name, "links": links})
        ctx.mark_nontrivial()
        ctx.cls("invalid-link-set-refused" if err is not None else "invalid-link-set-accepted")
        ctx.end(raise_on_fail=False)


def body(ctx):
    def f(case):
        ctx.begin(case)
        run_case(ctx, case)
        ctx.end()

    return f


def plan(tier):
    if tier == "quick":
        return [{"kind": "invalid"}] + [{"kind": "gen", "n": 250} for _ in range(16)]
    return [{"kind": "invalid"}] + [{"kind": "gen", "n": 5000} for _ in range(16)]


def run_shard(spec, ctx):
    if spec["kind"] == "invalid":
        invalid_link_sets(ctx)
    else:
        run_given(ctx, case_strategy(), body(ctx), spec["n"])


def health(tier, evaluations, nontrivial, classes):
    msgs = []
    for c in ("parsed", "as-subcommand:object", "as-subcommand:string", "as-subcommand:argv", "option-of-target-rejected", "target-value-supplied:s.n:cfg", "target-value-supplied:c:object", "target-value-supplied:ls.n:cfg", "link:b_lsn", "invalid-link-set-refused"):
        if classes.get(c, 0) < 5:
            msgs.append(f"class {c} nearly absent ({classes.get(c, 0)})")
    return msgs


def self_test():
    assert add2(2, 3) == 5 and grpsum({"u": 1, "v": 2}) == 3
    assert target_applicable({"links": ["a_sn"], "cls": "LSub3", "ls": []}, "s.n") is False and target_applicable({"links": ["a_d"], "cls": None, "ls": []}, "d")

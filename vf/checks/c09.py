"""C09  A parser's answers do not depend on what it was asked before.

Domain   Hypothesis RuleBasedStateMachine over three *reused* parsers whose calls are interleaved: A (subcommands two levels deep with
         a config argument each, a subclass argument with a default spec, a parse link, a list argument, a top-level config argument),
         B (unrelated; lazy instances, a Callable-typed argument with class help) and C (part of its defaults come from a default config
         file with an append key and a class change; a class group with an Optional[dataclass] parameter).  Rules with generated
         arguments: parse_args, parse_object (also defaults=False), parse_string, parse_env, get_defaults, dump, validate,
         instantiate_classes, --help, --X.help, --print_config[=flags] at every level, and failing variants of each.  <= 12 steps.
Oracle   differential after every step: (result | ArgumentError text | exit code + stdout) on the reused parser equals the same call on
         a freshly built parser from the same recipe.
A case is the history (plain data); run_case replays it without Hypothesis.
"""
import contextlib
import copy
import dataclasses
import io
import json
import os
import sys

from typing import Optional

from hypothesis import strategies as st

from ..core import HarnessError, fmt_exc, run_machine, short
from ..gen import fixtures as F
from ..gen import types as G

ID = "C09"
LEVEL = "exploration"
ENGINE = "hypothesis-stateful"
TECHNIQUE = "stateful property-based testing (Hypothesis rule-based machine): every step on a reused parser is compared with the same call on a freshly built identical parser"
LEVEL_TEXT = ("Thousands of random call histories (<= 12 steps, three interleaved parsers - subcommands two levels deep, a parser fed by a default config file -, successful / failing / help-printing / config-printing "
              "calls) per run; each step's complete observable outcome must equal that of a fresh parser. Exploration: the operation grammar bounds it.")
LEVEL_NOTE = ("Trusted: the outcome canonicaliser (results are compared by their yaml dump + typed repr, exits by code and output). The fresh "
              "side is checked to be deterministic in the self-test. Threads / async contexts are out of scope.")
RULE = ("case = history of operations on two reused parsers. non-trivial = the history contains a failing or exiting step followed, on the same "
        "parser, by a succeeding one. distinct = hash of the history")
ASSUMPTIONS = [
    "both sides run in the same process, one after the other: a fresh parser is 'fresh' with respect to parser state, not process state; "
    "process-global leaks are caught because the fresh reference of a *later* step would differ from the reference of the same op recorded "
    "at the start of the shard (checked)",
    "--help output is compared after going through parse_args on both sides (the lazily added --print_shtab is present on both)",
]
FX = "vf.gen.fixtures."


@dataclasses.dataclass
class D9:
    a: int = 1
    b: str = "x"


class C9:
    def __init__(self, d: Optional[D9] = None, k: int = 0):
        self.d, self.k = d, k


def build(which):
    from typing import Dict, List, Optional

    from jsonargparse import ArgumentParser, lazy_instance

    if which == "A":
        p = ArgumentParser(exit_on_error=False, prog="app", env_prefix="APP", default_env=False)
        p.add_argument("--cfg", action="config")
        p.add_argument("--a", type=int, default=1)
        p.add_argument("--b", type=int, default=2)
        p.add_argument("--m", type=F.Base, default={"class_path": FX + "SubA", "init_args": {"p": 3, "q": "dq"}})
        p.add_argument("--l", type=List[int], default=[1])
        p.add_argument("--od", type=Optional[Dict[str, int]])
        p.link_arguments("a", "b", compute_fn=lambda a: a * 2)
        p.link_arguments("a", "m.init_args.p")
        sc = p.add_subcommands(required=False)
        sa = ArgumentParser(exit_on_error=False)
        sa.add_argument("--cfg", action="config")
        sa.add_argument("--x", type=int, default=0)
        sa.add_argument("--lx", type=List[str], default=[])
        sb = ArgumentParser(exit_on_error=False)
        sb.add_argument("--y", type=Optional[F.Base], default=None)
        sc.add_subcommand("sa", sa)
        sc.add_subcommand("sb", sb)
        # a second level below sa (levels are attached in level order), with a config argument of its own
        deep = ArgumentParser(exit_on_error=False)
        deep.add_argument("--cfg", action="config")
        deep.add_argument("--z", type=int, default=0)
        sa.add_subcommands(required=False, dest="deepcmd").add_subcommand("deep", deep)
        return p
    if which == "C":
        # a parser whose defaults come partly from a default config file (an append key and a class change in it)
        import tempfile

        path = os.path.join(tempfile.gettempdir(), "vf_c09_defaults_v2.yaml")
        if not os.path.exists(path):
            with open(path, "w") as f:
                f.write("tags+: [c]\notags+: [first]\nm:\n  class_path: " + FX + "SubB\nn: 5\n")
        p = ArgumentParser(exit_on_error=False, prog="cfgd", default_config_files=[path])
        p.add_argument("--cfg", action="config")
        p.add_argument("--tags", type=List[str], default=["a", "b"])
        p.add_argument("--n", type=Optional[int], default=None)
        p.add_argument("--otags", type=Optional[List[str]], default=None)  # None in the source, appended to by the default config file
        p.add_argument("--m", type=F.Base, default={"class_path": FX + "SubA", "init_args": {"q": "dq"}})
        p.add_class_arguments(C9, "c")  # a class group with an Optional[dataclass] parameter
        return p
    p = ArgumentParser(exit_on_error=True, prog="other", env_prefix="OTH", default_env=True)
    p.add_argument("--cfg", action="config")
    p.add_argument("--a", type=str, default="other")
    p.add_argument("--h", type=F.Holder, default=lazy_instance(F.Holder, inner={"class_path": FX + "SubB"}))
    p.add_argument("--m", type=F.Base, default=lazy_instance(F.SubA, q="oq"))
    from typing import Callable

    p.add_argument("--cb", type=Callable[[int], F.Base])  # (the class help of a Callable skips the positional arguments of the class)
    return p


# ------------------------------------------------------------------------------------------------- operations
ARGV_A = [["--a=3"], ["--a=x"], ["--a", "5"], ["--b=1"], ["--l=[4, 5]"], ["--l+=6"], ["--l=x"], ["--od={\"k\": 1}"], ["--od.k=2"], ["--od=5"],
          ["--m=SubB"], ["--m=" + FX + "SubA"], ["--m.init_args.q=zz"], ["--m.q=yy"], ["--m=SubReq"], ["--m=SubReq", "--m.need=n"], ["--m=Unrelated"], ["--m=a.b"],
          ["--m.init_args.zz=1"], ["--m.dict_kwargs.k=1"], ["--m={\"class_path\": \"SubB\", \"init_args\": {\"r\": [1.5]}}"], ["--m.init_args.p=9"],
          ["--m=SubB", "--cfg={\"a\": \"x\"}"], ["--m=SubReq", "--m.need=n", "--l=[5]", "--cfg", "{\"zz\": 1}"], ["--od.k=1", "--cfg={\"l\": \"x\"}"], ["--cfg={\"m\": \"SubB\"}", "--cfg=[}"],
          ["--cfg={\"a\": 7}"], ["--cfg={\"l\": [9]}"], ["--cfg={\"zz\": 1}"], ["--cfg={\"sa\": {\"x\": 4}}"], ["--cfg", "{\"m\": \"SubB\"}"], ["--cfg=[}"],
          ["--print_config"], ["--print_config=skip_null"], ["--print_config=skip_default"], ["--print_config=comments"], ["--print_config=bad"],
          ["--help"], ["-h"], ["--m.help"], ["--m.help", "SubB"], ["--m.help=" + FX + "SubReq"], ["--m.help", "zz"], ["--zz"], ["zz"],
          ["sa"], ["sa", "--x=2"], ["sa", "--x=x"], ["sa", "--lx+=u"], ["sa", "--cfg", "{\"x\": 8}"], ["sa", "--cfg", "{\"zz\": 8}"], ["sa", "--print_config"], ["sa", "--help"],
          ["sa", "deep"], ["sa", "deep", "--z=2"], ["sa", "deep", "--z=x"], ["sa", "deep", "--print_config"], ["sa", "deep", "--print_config=skip_null", "--z=oops"], ["sa", "deep", "--cfg", "{\"z\": 3}"],
          ["sa", "deep", "--cfg", "{\"zz\": 3}", "--print_config"], ["sa", "deep", "--help"],
          ["sb"], ["sb", "--y=SubA"], ["sb", "--y=" + FX + "SubB", "--y.init_args.f=off"], ["sb", "--y.help", "SubA"], ["sb", "--y=Unrelated"], ["sb", "--y=null"]]
OBJ_A = [{}, {"a": 5}, {"a": "x"}, {"zz": 1}, {"l": [7]}, {"l+": 8}, {"m": "SubB"}, {"m": {"class_path": "SubA", "init_args": {"q": "o"}}}, {"m": {"init_args": {"q": "only"}}},
         {"m": {"class_path": "Unrelated"}}, {"sa": {"x": 3}}, {"sa": {"x": 3}, "sb": {"y": None}}, {"subcommand": "sb"}, {"subcommand": "zz"}, {"b": 1}, {"od": {"k": 1}}, {"od": None}, {"cfg": "x"}]
STR_A = ["m:\n  init_args:\n    q: only\n", "m:\n  init_args:\n    r: [2.5]\n", "m:\n  init_args:\n    need: n\n", "l+: 3", "od:\n  j: 4\n", "a: 7", "a: [}", "{}", "", "sb:\n  y: SubA\n", "m: SubB", "l: [1, 2]", "zz: 1", "sa:\n  x: 5\n  lx: [q]\n", "subcommand: sa", "a: null"]
ENV_A = [{}, {"APP_A": "9"}, {"APP_A": "q"}, {"APP_L": "[3]"}, {"APP_M": "SubB"}, {"APP_SUBCOMMAND": "sa", "APP_SA__X": "4"}, {"APP_SUBCOMMAND": "zz"}, {"APP_CFG": "{\"a\": 8}"}, {"APP_CFG": "[}"}]
ARGV_C = [["--c.d.a=5"], ["--c.d={\"b\": \"z\"}"], ["--c.d.b=w", "--c.k=2"], ["--c.d=null"], ["--c.d.a=x"],
          [], ["--help"], ["--tags+=d"], ["--otags+=second"], ["--tags=[x]"], ["--n=1"], ["--m.init_args.r=[1.5]"], ["--m=SubA"], ["--zz"], ["--print_config"], ["--cfg={\"tags+\": [\"e\"]}"]]
OBJ_C = [{}, {"m": {"init_args": {"r": [2.5]}}}, {"m": {"init_args": {"q": "only"}}}, {"tags+": ["z"]}, {"n": None}, {"zz": 1}]
ARGV_B = [["--cb.help", "SubA"], ["--cb.help", FX + "SubB"], ["--m.help", "SubA"], ["--cb=SubA"],
          [], ["--a=v"], ["--h.init_args.inner=SubA"], ["--m=SubB"], ["--zz"], ["--print_config"], ["--help"], ["--h.help"], ["--cfg={\"a\": \"c\"}"], ["--m.q=1"]]


@G._memo
def op_strategy():
    a_args = st.lists(st.sampled_from(ARGV_A), min_size=0, max_size=3).map(lambda xs: [t for x in xs for t in x])
    a_ok_args = st.lists(st.sampled_from([["--a=3"], ["--l+=6"], ["--m=SubB"], ["--m.init_args.q=zz"], ["--cfg={\"a\": 7}"], ["sa", "--x=2"], ["sb", "--y=SubA"], ["--od.k=2"], ["--m=SubReq", "--m.need=n"]]),
                         min_size=0, max_size=2).map(lambda xs: sorted([t for x in xs for t in x], key=lambda t: t in ("sa", "sb") or t.startswith(("--x", "--y")))).filter(
        lambda xs: sum(t in ("sa", "sb") for t in xs) <= 1)
    ops = [
        a_args.map(lambda x: ["A", "parse_args", x]), a_args.map(lambda x: ["A", "parse_args", x]), a_ok_args.map(lambda x: ["A", "parse_args", x]),
        st.sampled_from(OBJ_A).map(lambda x: ["A", "parse_object", x]), st.sampled_from(STR_A).map(lambda x: ["A", "parse_string", x]),
        st.sampled_from(ENV_A).map(lambda x: ["A", "parse_env", x]), st.just(["A", "get_defaults", None]),
        a_ok_args.map(lambda x: ["A", "dump", x]), a_args.map(lambda x: ["A", "dump", x]), a_ok_args.map(lambda x: ["A", "validate", x]),
        a_ok_args.map(lambda x: ["A", "instantiate", x]), a_args.map(lambda x: ["A", "instantiate", x]),
        st.sampled_from(OBJ_A).map(lambda x: ["A", "validate_object", x]),
        st.lists(st.sampled_from(ARGV_B), max_size=2).map(lambda xs: ["B", "parse_args", [t for x in xs for t in x]]),
        st.lists(st.sampled_from(ARGV_B), max_size=2).map(lambda xs: ["B", "instantiate", [t for x in xs for t in x]]),
        st.just(["B", "get_defaults", None]),
        st.sampled_from(ARGV_C).map(lambda x: ["C", "parse_args", x]), st.sampled_from(ARGV_C).map(lambda x: ["C", "parse_args", x]), st.just(["C", "get_defaults", None]),
        st.sampled_from(OBJ_C).map(lambda x: ["C", "parse_object", x]), st.sampled_from(OBJ_C).map(lambda x: ["C", "parse_object_nodefaults", x]),
        st.sampled_from(ARGV_C).map(lambda x: ["C", "dump", x]),
    ]
    return st.one_of(*ops)


def canon(v):
    """a comparable, printable form of a result"""
    from jsonargparse import Namespace

    if isinstance(v, Namespace):
        return {"$ns": {k: canon(x) for k, x in vars(v).items()}}
    if isinstance(v, dict):
        return {str(k): canon(x) for k, x in v.items()}
    if isinstance(v, (list, tuple)):
        return [type(v).__name__] + [canon(x) for x in v]
    if isinstance(v, (F.Base, F.Holder)):
        return {"$obj": type(v).__name__, "state": {k: canon(x) for k, x in vars(v).items()}}
    if v is None or isinstance(v, (bool, int, float, str)):
        return [type(v).__name__, v] if not isinstance(v, str) else v
    return _noaddr(f"<{type(v).__name__} {v!r}>")


def execute(p, op):
    from jsonargparse import ArgumentError

    _w, kind, arg = op
    arg = copy.deepcopy(arg)
    out, err = io.StringIO(), io.StringIO()
    old_stdin, old_env, old_cwd = sys.stdin, dict(os.environ), os.getcwd()
    sys.stdin = io.StringIO("")
    del F.CALLS[:]
    try:
        with contextlib.redirect_stdout(out), contextlib.redirect_stderr(err):
            if kind == "parse_args":
                r = p.parse_args(arg)
            elif kind == "parse_object":
                r = p.parse_object(arg)
            elif kind == "parse_object_nodefaults":
                r = p.parse_object(arg, defaults=False)
            elif kind == "parse_string":
                r = p.parse_string(arg)
            elif kind == "parse_env":
                r = p.parse_env(arg)
            elif kind == "get_defaults":
                r = p.get_defaults()
            elif kind == "dump":
                r = p.dump(p.parse_args(arg), skip_none=False)
            elif kind == "validate":
                p.validate(p.parse_args(arg))
                r = "valid"
            elif kind == "validate_object":
                from jsonargparse import dict_to_namespace

                p.validate(dict_to_namespace(arg))
                r = "valid"
            elif kind == "instantiate":
                r = p.instantiate_classes(p.parse_args(arg))
                r = [r, [c[0] for c in F.CALLS]]
            elif kind == "format_help":
                r = p.format_help()
            else:
                raise HarnessError(kind)
        return ["ok", canon(r), _noaddr(out.getvalue())]
    except SystemExit as ex:
        return ["exit", ex.code, _noaddr(out.getvalue()), _noaddr(err.getvalue())]
    except ArgumentError as ex:
        return ["argument-error", str(ex)]
    except HarnessError:
        raise
    except Exception as ex:  # noqa
        return ["exception", type(ex).__name__, str(ex)[:300]]
    finally:
        sys.stdin = old_stdin
        os.environ.clear()
        os.environ.update(old_env)
        if os.getcwd() != old_cwd:
            os.chdir(old_cwd)


def _noaddr(text):
    """object addresses in reprs are not behaviour"""
    import re

    return re.sub(r"0x[0-9a-f]{6,}", "0xADDR", text)


FIRST = {}  # op -> outcome on a fresh parser, the first time the op was seen in this process


class Session:
    """two reused parsers + the comparison with fresh ones"""

    def __init__(self, ctx):
        self.ctx = ctx
        self.reused = {"A": build("A"), "B": build("B"), "C": build("C")}
        self.hist = []
        self.flags = set()
        self.last = {"A": None, "B": None, "C": None}

    def step(self, op):
        self.hist.append(op)
        w = op[0]
        got = execute(self.reused[w], op)
        ref = execute(build(w), op)
        # "or on other parsers in the same process": a leak into process-global state would contaminate the fresh parser too, so the
        # fresh answer is also compared with the answer a fresh parser gave to the same operation earlier in this process
        key = json.dumps(op, sort_keys=True)
        first = FIRST.setdefault(key, ref)
        if first != ref:
            self.ctx.finding(f"C09/{op[1]}/fresh-parser-answers-differently-than-earlier-in-this-process/{first[0]}-then-{ref[0]}",
                             {"op": op, "earlier": short(first, 400), "now": short(ref, 400), "history": short(self.hist, 600)})
        self.ctx.cls(f"op:{op[1]}:{got[0]}")
        ok_now = got[0] == "ok"
        if ok_now and self.last[w] in ("fail", "exit"):
            self.flags.add("success-after-" + self.last[w])
        self.last[w] = "ok" if ok_now else "exit" if got[0] == "exit" else "fail"
        if got != ref:
            what = "outcome-kind" if got[0] != ref[0] else "result" if got[0] == "ok" else "output-or-message"
            prev = [h[1] + ":" + (" ".join(h[2]) if isinstance(h[2], list) else short(h[2], 40)) for h in self.hist[:-1] if h[0] == w][-3:]
            self.ctx.finding(f"C09/{op[1]}/differs-from-fresh-parser/{what}/reused-{got[0]}-fresh-{ref[0]}",
                             {"op": op, "reused": short(got, 500), "fresh": short(ref, 500), "earlier_ops_on_this_parser": prev})


def run_case(ctx, case):
    import warnings

    warnings.simplefilter("ignore")
    for op in case["history"]:  # references taken before the history runs (replays start in a new process)
        FIRST.setdefault(json.dumps(op, sort_keys=True), execute(build(op[0]), op))
    s = Session(ctx)
    for op in case["history"]:
        s.step(op)
        if ctx._case_findings:
            break
    if s.flags:
        ctx.mark_nontrivial()


def make_machine(ctx):
    import warnings

    from hypothesis.stateful import RuleBasedStateMachine, rule

    warnings.simplefilter("ignore")

    class ReusedVsFresh(RuleBasedStateMachine):
        def __init__(self):
            super().__init__()
            self.s = Session(ctx)
            self.case = {"history": self.s.hist}
            ctx.begin(self.case)

        @rule(op=op_strategy())
        def do(self, op):
            self.s.step(op)
            if ctx._case_findings:
                ctx.end()

        def teardown(self):
            if self.s.flags:
                ctx.mark_nontrivial()
            for f in self.s.flags:
                ctx.cls("flag:" + f)
            ctx.cls("len:%02d" % len(self.s.hist))
            ctx.sample()
            ctx.end()

    return ReusedVsFresh


def plan(tier):
    if tier == "quick":
        return [{"n": 120, "steps": 12} for _ in range(16)]
    return [{"n": 2500, "steps": 12} for _ in range(16)]


def run_shard(spec, ctx):
    run_machine(ctx, make_machine(ctx), spec["n"], spec["steps"])


def health(tier, evaluations, nontrivial, classes):
    msgs = []
    for c in ("op:parse_args:ok", "op:parse_args:argument-error", "op:parse_args:exit", "op:instantiate:ok", "op:dump:ok", "op:parse_env:ok", "op:parse_string:argument-error",
              "flag:success-after-fail", "flag:success-after-exit"):
        if classes.get(c, 0) < 20:
            msgs.append(f"class {c} nearly absent ({classes.get(c, 0)})")
    return msgs


def self_test():
    import warnings

    warnings.simplefilter("ignore")
    # the fresh side must be deterministic, else the oracle is flaky
    for op in (["A", "parse_args", ["--a=3", "sa", "--x=2"]], ["A", "parse_args", ["--print_config"]], ["A", "instantiate", ["--m=SubB"]], ["A", "parse_args", ["--m.help", "SubB"]],
               ["A", "get_defaults", None], ["B", "instantiate", []], ["A", "parse_args", ["--a=x"]]):
        a, b = execute(build(op[0]), op), execute(build(op[0]), op)
        if a != b:
            raise HarnessError(f"fresh parsers disagree with each other on {op}: {short(a, 200)} vs {short(b, 200)}")
    r = execute(build("A"), ["A", "parse_args", ["--a=3"]])
    assert r[0] in ("ok", "argument-error", "exit", "exception") and isinstance(canon({"k": (1, [2])}), dict), r

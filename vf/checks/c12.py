"""C12  auto_cli calls the component with exactly the parsed values.

Domain   generated source files: functions with 1-6 parameters (positional-or-keyword and keyword-only; ten type shapes; with and
         without defaults; Optional without default), lists and nested dicts of functions, classes with __init__ and 1-3 methods whose
         parameter names overlap on purpose x valid value assignments rendered through positionals (required parameters), options,
         --config strings at the level of the callable, one shared --config in front of the sub-command names with a section for every
         component (the siblings' too), and mixes.
Oracle   the call log written by the generated code itself: exactly one call of the selected component (and one __init__ for a class),
         every parameter typed-equal to the value given (converted to the declared type) or to the signature default, Optional without
         default -> None; auto_cli returns the callee's return value (a unique token); a missing required parameter is an error; the
         constructor and the chosen method each receive only their own parameters.
"""
import contextlib
import io
import json

from hypothesis import strategies as st

from ..core import HarnessError, fmt_exc, innermost_pkg_frame, run_given, short
from ..gen import programs as PR
from ..gen import types as G

ID = "C12"
LEVEL = "exploration"
ENGINE = "hypothesis + generated source files"
TECHNIQUE = "property-based testing over generated programs (real source files): the generated callables log their own calls, which are compared with the values rendered on the command line / config"
LEVEL_TEXT = ("Thousands of generated signatures per run as single functions, lists and nested dicts of functions, and classes with methods; each "
              "is invoked through auto_cli with generated assignments and the call log is compared parameter by parameter, type for type. "
              "Exploration bounded by ten type shapes and six parameters per callable.")
LEVEL_NOTE = ("Trusted: the source generator and the argv renderer (rules learnt from probing: negative positionals need '--'; all required "
              "parameters of one callable go through one channel; a class constructor's required parameters are given positionally because the "
              "method name is itself a positional). Parameter names avoid the reserved 'config' / 'subcommand' and leading underscores.")
RULE = ("case = (component kind, signatures, selection, assignments, channels). non-trivial = the called signature has >= 3 parameters with at "
        "least one taken from --config and one left at its default, or the component is a class with a method, or a nested dict. distinct = hash of the case")
ASSUMPTIONS = [
    "positional-only parameters are unsupported by the library and are not generated",
]
TY = {
    "int": ("int", st.integers(-3, 9)), "str": ("str", st.sampled_from(["a", "b c", "null", "1", "-x", "", "1e3"])), "float": ("float", st.sampled_from([0.5, 1.0, -2.5, 1000.0, 200.0, 0.001, 1e22, -1e-05, -1e16, 5e-324])),
    "bool": ("bool", st.booleans()), "optint": ("Optional[int]", st.one_of(st.none(), st.integers(0, 9))), "optstr": ("Optional[str]", st.one_of(st.none(), st.sampled_from(["a", "b"]))),
    "listint": ("List[int]", st.lists(st.integers(0, 9), max_size=3)), "dict": ("Dict[str, int]", st.dictionaries(st.sampled_from(["p", "q"]), st.integers(0, 9), max_size=2)),
    "tuple": ("Tuple[int, str]", st.tuples(st.integers(0, 9), st.sampled_from(["a", "b"])).map(list)), "lit": ("Literal['x', 'y', 3]", st.sampled_from(["x", "y", 3])),
    "optlist": ("Optional[List[int]]", st.one_of(st.none(), st.lists(st.integers(0, 3), max_size=2))),
    # a str-valued dict whose entries are given one per option in the nested-key form (--name.KEY=VALUE), values with '=' inside
    "dictstr": ("Dict[str, str]", st.dictionaries(st.sampled_from(["p", "q", "JAVA_OPTS"]), st.sampled_from(["a", "x=y", "-Dmode=fast", "k=v=w", "=", "b c"]), min_size=1, max_size=2)),
    # a TypedDict (declared in the generated source) whose entries need conversion: list -> tuple, int -> float
    "td": ("TD", st.fixed_dictionaries({"t": st.tuples(st.integers(0, 9), st.sampled_from(["a", "b"])).map(list), "f": st.sampled_from([2, 0.5, -1])}, optional={"n": st.integers(0, 9)})),
}
OPTIONAL = ("optint", "optstr", "optlist")
PNAMES = ["a", "b", "c", "d", "e", "f"]
ORDER = {"req": 0, "default": 1, "kwonly_req": 2, "kwonly_default": 2}


def sig_strategy(max_params=6):
    param = st.tuples(st.sampled_from(PNAMES), st.sampled_from(sorted(TY)), st.sampled_from(["req", "default", "kwonly_req", "kwonly_default"]))

    def finish(draw, params):
        params = sorted(params, key=lambda p: ORDER[p[2]])
        return [[n, t, k, draw(TY[t][1]) if "default" in k else None] for n, t, k in params]

    return st.lists(param, min_size=1, max_size=max_params, unique_by=lambda p: p[0]).flatmap(lambda ps: st.composite(lambda draw: finish(draw, ps))())


def is_required(p):
    return p[2] in ("req", "kwonly_req") and p[1] not in OPTIONAL


def assignment(sig, required_via):
    """strategy: {given: {name: value}, how: {name: argv|config}} for one callable"""
    def build(draw):
        given, how = {}, {}
        for n, t, k, _d in sig:
            p = [n, t, k, _d]
            if is_required(p):
                given[n] = draw(TY[t][1].filter(lambda v: v is not None))
                how[n] = required_via
            elif draw(st.booleans()):
                given[n] = draw(TY[t][1])
                how[n] = draw(st.sampled_from(["argv", "config"]))
        return {"given": given, "how": how}

    return st.composite(lambda draw: build(draw))()


@G._memo
def case_strategy():
    def fn_case(draw, kind):
        if kind == "function":
            sigs = {"f1": draw(sig_strategy())}
            select = ["f1"]
        elif kind == "list":
            names = draw(st.lists(st.sampled_from(["f1", "f2", "f3"]), min_size=2, max_size=3, unique=True))
            sigs = {n: draw(sig_strategy(4)) for n in names}
            select = [draw(st.sampled_from(names))]
        else:  # nested dict {"grp": {f1, f2}, f3}
            sigs = {n: draw(sig_strategy(4)) for n in ("f1", "f2", "f3")}
            select = draw(st.sampled_from([["grp", "f1"], ["grp", "f2"], ["f3"]]))
        target = sigs[select[-1]]
        asg = draw(assignment(target, draw(st.sampled_from(["argv", "config"]))))
        case = {"kind": kind, "sigs": sigs, "select": select, "assign": asg, "omit_required": draw(st.sampled_from([False] * 7 + [True]))}
        if kind != "function" and draw(st.integers(0, 2)) == 0:
            # one shared --config in front of the sub-command names, holding a section for every component (the siblings' too)
            case["config_level"] = "top"
            case["siblings"] = {n: draw(assignment(sg, "config")) for n, sg in sigs.items() if n != select[-1]}
        elif kind != "function" and draw(st.integers(0, 3)) == 0:
            case["config_level"] = "select"  # nothing but one --config: it names the component(s) and holds every value
        return case

    def class_case(draw):
        init = draw(sig_strategy(4))
        methods = {m: draw(sig_strategy(3)) for m in draw(st.lists(st.sampled_from(["run", "fit", "show"]), min_size=1, max_size=3, unique=True))}
        m = draw(st.sampled_from(sorted(methods)))
        case = {"kind": "class", "sigs": {"__init__": init, **methods}, "select": [m], "init_assign": draw(assignment(init, "argv")),
                "assign": draw(assignment(methods[m], draw(st.sampled_from(["argv", "config"])))), "omit_required": draw(st.sampled_from([False] * 7 + [True]))}
        if len(methods) > 1 and draw(st.integers(0, 2)) == 0:
            case["config_level"] = "top"
            case["siblings"] = {n: draw(assignment(sg, "config")) for n, sg in methods.items() if n != m}
        elif draw(st.integers(0, 3)) == 0:
            case["config_level"] = "select"
        return case

    return st.sampled_from(["function", "function", "list", "dict", "class", "class"]).flatmap(
        lambda k: st.composite(lambda draw: class_case(draw) if k == "class" else fn_case(draw, k))())


# ------------------------------------------------------------------------------------------------- source generation
def params_src(sig):
    parts, star = [], False
    for n, t, k, d in sig:
        if k.startswith("kwonly") and not star:
            parts.append("*")
            star = True
        dv = tuple(d) if t == "tuple" and d is not None else _td(d) if t == "td" and d is not None else d
        parts.append(f"{n}: {TY[t][0]}" + (f" = {dv!r}" if "default" in k else ""))
    return ", ".join(parts)


def _td(v):
    return {**v, "t": tuple(v["t"]), "f": float(v["f"])}


def source(case):
    lines = ["from typing import *", "CALLS = []", "", "class TD(TypedDict):", "    t: Tuple[int, str]", "    f: float", "    n: NotRequired[int]", ""]
    if case["kind"] == "class":
        init = case["sigs"]["__init__"]
        lines += ["class Comp:", f"    def __init__(self, {params_src(init)}):", f"        CALLS.append(('__init__', dict({', '.join(f'{p[0]}={p[0]}' for p in init)})))"]
        for m, sig in case["sigs"].items():
            if m == "__init__":
                continue
            lines += [f"    def {m}(self, {params_src(sig)}):", f"        CALLS.append(('{m}', dict({', '.join(f'{p[0]}={p[0]}' for p in sig)})))", f"        return ('TOKEN', '{m}')"]
    else:
        for f, sig in case["sigs"].items():
            lines += [f"def {f}({params_src(sig)}):", f"    CALLS.append(('{f}', dict({', '.join(f'{p[0]}={p[0]}' for p in sig)})))", f"    return ('TOKEN', '{f}')", ""]
    return "\n".join(lines) + "\n"


SPELLED = {1000.0: "1e3", 200.0: "2E2", 0.001: "1e-3", 1e22: "1e+22"}  # command line spellings of floats other than repr's


def raw(v):
    if isinstance(v, float) and v in SPELLED:
        return SPELLED[v]
    return v if isinstance(v, str) else json.dumps(v)


def render(sig, asg, omit=None, split=False):
    """-> argv tokens for one callable: [--config json] options [--] positionals  (split: the config part as a dict, the rest as tokens)"""
    given, how = dict(asg["given"]), asg["how"]
    if omit:
        given.pop(omit, None)
    cfgd, opts, pos = {}, [], []
    for n, t, k, _d in sig:
        if n not in given:
            continue
        v = given[n]
        if how[n] == "config":
            cfgd[n] = v
        elif is_required([n, t, k, _d]):
            pos.append(raw(v))
        elif t == "dictstr":
            opts += [f"--{n}.{kk}={vv}" for kk, vv in v.items()]  # one entry per option: each sets that item in the dict built so far (the default)
        else:
            opts.append(f"--{n}={raw(v)}")
    rest = opts + (["--"] if any(p.startswith("-") for p in pos) else []) + pos
    if split:
        return cfgd, rest
    return (["--config", json.dumps(cfgd)] if cfgd else []) + rest


def render_top(case, sig, omit):
    """one --config in front of everything with a section per component; the rest of the selected callable's values follow its name"""
    kind, select = case["kind"], case["select"]
    cfgd, rest = render(sig, case["assign"], omit, split=True)
    sections = {n: render(case["sigs"][n], a, split=True)[0] for n, a in case["siblings"].items()}
    sections[select[-1]] = cfgd
    if kind == "dict":
        top = {"grp": {n: sections[n] for n in ("f1", "f2")}, "f3": sections["f3"]}
    else:
        top = {n: sections[n] for n in case["sigs"] if n != "__init__"}
    pre = []
    if kind == "class":
        init_cfg, pre = render(case["sigs"]["__init__"], case["init_assign"], split=True)
        top = {**init_cfg, **top}
    return ["--config", json.dumps(top)] + pre + list(select) + rest


def render_select(case, sig, omit):
    """the whole command line is one --config that selects the component through the 'subcommand' keys and holds every given value"""
    def everything(sg, asg, om=None):
        return {n: v for n, v in asg["given"].items() if n != om}

    kind, select = case["kind"], case["select"]
    top = {"subcommand": select[-1], select[-1]: everything(sig, case["assign"], omit)}
    for name in reversed(select[:-1]):
        top = {"subcommand": name, name: top}
    if kind == "class":
        top = {**everything(case["sigs"]["__init__"], case["init_assign"]), **top}
    return ["--config", json.dumps(top)]


def expected_call(sig, asg, items_form=True):
    exp = {}
    for n, t, k, d in sig:
        if n in asg["given"]:
            v = asg["given"][n]
            if t == "dictstr" and items_form and asg["how"].get(n) == "argv" and "default" in k:
                v = {**d, **v}  # given entry by entry on the command line: items set in the default dict
        elif "default" in k:
            v = d
        else:
            v = None  # Optional without default
        if v is not None:
            if t == "tuple":
                v = tuple(v)
            elif t == "float":
                v = float(v)
            elif t == "td":
                v = _td(v)
        exp[n] = v
    return exp


def run_case(ctx, case):
    import warnings

    from jsonargparse import ArgumentError, auto_cli

    warnings.simplefilter("ignore")
    mod = PR.load_source(source(case), "c12")
    try:
        kind, select = case["kind"], case["select"]
        ctx.cls("kind:" + kind)
        if kind == "function":
            comp, sig = mod.f1, case["sigs"]["f1"]
            prefix = []
        elif kind == "list":
            comp, sig = [getattr(mod, n) for n in case["sigs"]], case["sigs"][select[-1]]
            prefix = list(select)
        elif kind == "dict":
            comp, sig = {"grp": {"f1": mod.f1, "f2": mod.f2}, "f3": mod.f3}, case["sigs"][select[-1]]
            prefix = list(select)
        else:
            comp, sig = mod.Comp, case["sigs"][select[-1]]
            prefix = render(case["sigs"]["__init__"], case["init_assign"]) + [select[-1]]
        required = [p[0] for p in sig if is_required(p)]
        omit = required[0] if case.get("omit_required") and required else None
        argv = prefix + render(sig, case["assign"], omit)
        if case.get("config_level") == "top":
            argv = render_top(case, sig, omit)
            ctx.cls("shared-top-level-config")
        elif case.get("config_level") == "select":
            argv = render_select(case, sig, omit)
            ctx.cls("component-selected-by-the-config-alone")
        out, err = io.StringIO(), io.StringIO()
        try:
            with contextlib.redirect_stdout(out), contextlib.redirect_stderr(err):
                ret = auto_cli(comp, args=list(argv), exit_on_error=False)
            outcome = "returned"
        except ArgumentError as ex:
            outcome, msg = "argument-error", str(ex)
        except SystemExit as ex:
            outcome, msg = f"exit-{ex.code}", err.getvalue()
        except BaseException as ex:  # noqa
            outcome, msg = f"raises:{type(ex).__name__}", fmt_exc(ex)
        ctx.cls("outcome:" + outcome.split(":")[0])
        nparams = len(sig)
        hows = set(case["assign"]["how"].values())
        if (nparams >= 3 and "config" in hows and any(p[0] not in case["assign"]["given"] for p in sig)) or kind in ("class", "dict") or case.get("config_level") in ("top", "select"):
            ctx.mark_nontrivial()
        if omit:
            ctx.cls("required-parameter-omitted")
            if outcome == "returned":
                ctx.finding(f"C12/{kind}/call-made-although-a-required-parameter-is-missing", {"omitted": omit, "argv": argv, "calls": short(mod.CALLS, 300)})
            elif outcome.startswith("raises"):
                ctx.cls("escape (C03): " + outcome)
            return
        if outcome != "returned":
            ctx.finding(f"C12/{kind}/valid-command-line-{'rejected' if outcome in ('argument-error', 'exit-2') else outcome}", {"argv": argv, "error": short(msg, 300), "source": short(source(case), 600)})
            return
        if ret != ("TOKEN", select[-1]):
            ctx.finding(f"C12/{kind}/return-value-is-not-the-callee's", {"returned": short(ret, 100), "argv": argv})
        calls = list(mod.CALLS)
        want_names = (["__init__"] if kind == "class" else []) + [select[-1]]
        if [c[0] for c in calls] != want_names:
            ctx.finding(f"C12/{kind}/component-not-called-exactly-once", {"calls": [c[0] for c in calls], "expected": want_names, "argv": argv})
            return
        checks = [(select[-1], sig, case["assign"], calls[-1][1])]
        if kind == "class":
            checks.append(("__init__", case["sigs"]["__init__"], case["init_assign"], calls[0][1]))
        for name, s_, a_, got in checks:
            exp = expected_call(s_, a_, items_form=case.get("config_level") != "select")
            if set(got) != set(exp):
                ctx.finding(f"C12/{kind}/callable-received-foreign-parameters", {"callable": name, "got": sorted(got), "expected": sorted(exp)})
                continue
            for n in exp:
                d = G.diff(got[n], exp[n], limit=1)
                if d:
                    t = {p[0]: p[1] for p in s_}[n]
                    src = "given" if n in a_["given"] else "default"
                    ctx.finding(f"C12/{kind}/parameter-bound-to-wrong-value/{t}/{src}", {"callable": name, "param": n, "got": repr(got[n]), "expected": repr(exp[n]), "argv": argv})
        ctx.sample()
    finally:
        PR.unload(mod)


def body(ctx):
    def f(case):
        ctx.begin(case)
        run_case(ctx, case)
        ctx.end()

    return f


def plan(tier):
    if tier == "quick":
        return [{"n": 700} for _ in range(16)]
    return [{"n": 4000} for _ in range(16)]


def run_shard(spec, ctx):
    run_given(ctx, case_strategy(), body(ctx), spec["n"])


def health(tier, evaluations, nontrivial, classes):
    msgs = []
    for c in ("kind:function", "kind:list", "kind:dict", "kind:class", "outcome:returned", "required-parameter-omitted"):
        if classes.get(c, 0) < 20:
            msgs.append(f"class {c} nearly absent ({classes.get(c, 0)})")
    if classes.get("outcome:returned", 0) < 0.6 * evaluations:
        msgs.append(f"too few successful calls: {classes.get('outcome:returned', 0)}/{evaluations}")
    return msgs


def self_test():
    sig = [["a", "int", "req", None], ["b", "tuple", "default", [1, "a"]], ["c", "optint", "kwonly_req", None]]
    assert params_src(sig) == "a: int, b: Tuple[int, str] = (1, 'a'), *, c: Optional[int]", params_src(sig)
    asg = {"given": {"a": -3}, "how": {"a": "argv"}}
    assert render(sig, asg) == ["--", "-3"] and expected_call(sig, asg) == {"a": -3, "b": (1, "a"), "c": None}

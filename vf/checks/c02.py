"""C02  Accepted values conform to the declared type; acceptance is compositional.

Four relations (DESIGN 4/C02), each stated so that it cannot over-reach:
  1 soundness (object and argv channel): parse succeeded => the non-null result conforms to the shape (independent validator);
  2 completeness on canonical values (object channel): a conforming input is never rejected (which value it becomes is the
    subject of C01/C05/C10, not of this property);
  3 unambiguous near misses (one position broken, no documented coercion repairs it) are rejected with ArgumentError;
  4 compositionality measured on the implementation itself: accept(C[T], [v..]) == all(accept(T, v)); accept(Union[perm], v) is the
    same for every permutation of the members and equals any(accept(Ti, v)) (object channel; permutations also on argv text).
"""
import copy
import itertools
import json
import os

from hypothesis import strategies as st

from ..core import HarnessError, fmt_exc, innermost_pkg_frame, run_given, with_spellings, short
from ..gen import types as G

ID = "C02"
LEVEL = "exploration"
ENGINE = "hypothesis (+ atheris/libFuzzer coverage guidance in 4 thorough shards)"
TECHNIQUE = "property-based testing over a type-hint grammar: independent conformance validator, near-miss catalogue, metamorphic compositionality / Union-permutation relations"
LEVEL_TEXT = ("Random type hints of the grammar up to depth 3 (quick) / 4 (thorough) with conforming values, single-position near misses, "
              "look-alike strings and all permutations of each Union; soundness is judged by a validator that never consults the library, "
              "compositionality by comparing the library with itself across contexts. Two small families are enumerated completely in every "
              "run: path types as hints x file names a YAML reader would not take for a string, and Unions whose first member refuses "
              "a value in an unusual way. Exploration of an infinite space: bounded by the grammar.")
LEVEL_NOTE = ("Trusted: the shape->type mapping and the conformance validator in vf/gen/types.py (self-tested), the near-miss catalogue "
              "(deliberately conservative: values a documented coercion accepts are not near misses). The value a Union picks may depend "
              "on member order; only accept/reject is compared.")
RULE = ("case = (type shape from grammar G, relation, value). non-trivial = shape depth >= 2 or contains a Union, and the case is a rejection "
        "or its result contains a converted leaf (enum/float/tuple/set/int-key dict/dataclass/restricted). distinct = hash of (shape, relation, value)")
ASSUMPTIONS = [
    "top-level None means 'unset' and is accepted for every type (excluded from near misses)",
    "a top-level string is YAML-loaded into containers, a nested one is not: compositionality uses strings only at leaf-typed positions",
    "the value chosen by a Union may depend on member order (first match wins); only accept/reject must be order independent",
    "exceptions other than ArgumentError are C03's subject: here they count as a rejection and are tallied in classes",
]

_PARSERS = {}


def parser_for(shape):
    from jsonargparse import ArgumentParser

    key = json.dumps([G.SPELL[0], shape], sort_keys=True, default=repr)
    p = _PARSERS.get(key)
    if p is None:
        if len(_PARSERS) > 3000:
            _PARSERS.clear()
        p = ArgumentParser(exit_on_error=False)
        p.add_argument("--x", type=G.to_type(shape))
        _PARSERS[key] = p
    return p


def parse_obj(ctx, shape, v):
    from jsonargparse import ArgumentError

    try:
        return ("ok", parser_for(shape).parse_object({"x": copy.deepcopy(v)}).x)
    except ArgumentError as ex:
        return ("rej", short(str(ex), 200))
    except Exception as ex:  # noqa
        ctx.cls(f"escape:{type(ex).__name__}@{innermost_pkg_frame(ex)}")
        return ("rej", "escape " + fmt_exc(ex))


def parse_argv(ctx, shape, text):
    from jsonargparse import ArgumentError

    if "\x00" in text:
        return ("rej", "NUL")
    try:
        return ("ok", parser_for(shape).parse_args(["--x=" + text]).x)
    except ArgumentError as ex:
        return ("rej", short(str(ex), 200))
    except Exception as ex:  # noqa
        ctx.cls(f"escape:{type(ex).__name__}@{innermost_pkg_frame(ex)}")
        return ("rej", "escape " + fmt_exc(ex))


def render(shape, v):
    if shape[0] == "str" and isinstance(v, str):
        return v
    try:
        return json.dumps(G.to_jsonable(v), ensure_ascii=False)
    except (TypeError, ValueError):
        return None


def leaf_typed(shape):
    return shape[0] in ("str", "int", "float", "bool", "enum", "lit", "lit2", "posint", "nnfloat", "unit", "rstr")


# ------------------------------------------------------------------------------------------------- strategies
def case_strategy(depth):
    shapes = G.shapes(depth)

    def conf(sh):
        return G.conforming(sh).map(lambda v: {"rel": "conf", "shape": sh, "value": v})

    def near(sh):
        nm = G.near_miss(sh)
        if nm is None:
            return conf(sh)
        return nm.map(lambda p: {"rel": "near", "shape": sh, "value": p[0], "what": p[1]})

    def text(sh):
        return G.text_strategy().map(lambda t: {"rel": "text", "shape": sh, "value": t})

    def comp(sh):
        kind = st.sampled_from(["list", "dict", "tuplevar", "tuple", "set", "dictint"])

        def elems(kd, sh=sh):
            if kd == "set" and sh[0] not in ("str", "int", "bool", "enum", "posint"):
                kd = "list"
            nm = G.near_miss(sh)
            el = st.one_of(G.conforming(sh), G.conforming(sh), nm.map(lambda p: p[0])) if nm is not None else G.conforming(sh)
            return st.lists(el, min_size=1, max_size=3).map(lambda vs: {"rel": "comp", "shape": sh, "container": kd, "values": vs})

        # element types that mix str with something else get extra weight: that is where the "original string" fallbacks live
        strmix = st.sampled_from([["opt", ["str"]], ["union", ["str"], ["int"]], ["union", ["int"], ["str"]], ["union", ["float"], ["str"], ["bool"]],
                                  ["opt", ["union", ["str"], ["list", ["int"]]]], ["union", ["enum", "Color"], ["str"]]])
        return st.one_of(kind.flatmap(elems), kind.flatmap(elems), st.tuples(kind, strmix).flatmap(lambda t: elems(t[0], t[1])))

    def perm(sh):
        if sh[0] != "union":
            sh = ["union", sh, ["int"]] if sh != ["int"] else ["union", sh, ["str"]]
        members = sh[1:]
        parts = []
        for m in members:
            parts.append(G.conforming(m))
            nm = G.near_miss(m)
            if nm is not None:
                parts.append(nm.map(lambda p: p[0]))
        return st.one_of(st.one_of(*parts).map(lambda v: {"rel": "perm", "shape": sh, "value": v, "channel": "obj"}),
                         st.one_of(*parts).map(lambda v: {"rel": "perm", "shape": sh, "value": v, "channel": "argv"}),
                         G.text_strategy().map(lambda t: {"rel": "perm", "shape": sh, "value": t, "channel": "argvtext"}))

    def sibling(sh):
        """Union of a container shape and a sibling that differs in one leaf type: the first member converts part of the
        value before failing, which is where order dependence hides"""
        if sh[0] in ("union", "opt") or G.depth_of(sh) < 2:
            sh = ["tuple", sh, ["int"]]
        small = st.sampled_from([["tuple", ["int"], ["int"]], ["tuple", ["int"], ["str"]], ["tuple", ["int"], ["int"], ["bool"]], ["tuplevar", ["int"]],
                                 ["set", ["int"]], ["list", ["int"]], ["dict", ["int"]], ["tuple", ["int"], ["list", ["int"]]],
                                 ["list", ["tuple", ["int"], ["int"]]], ["tuple", ["enum", "Color"], ["int"]], ["dictint", ["int"]]])
        def cases(base, sib):
            u = ["union", base, sib]
            direct = st.tuples(st.one_of(G.conforming(base), G.conforming(base), G.conforming(sib)), st.sampled_from(["obj", "obj", "argv"])).map(
                lambda t: {"rel": "perm", "shape": u, "value": t[0], "channel": t[1]})
            return st.one_of(direct, direct, perm(u))

        generic = st.one_of(st.just(sh), small, small).flatmap(lambda base: G.mutations_of(base).flatmap(lambda sib: cases(base, sib)))
        # curated pairs of keyed members: the first converts one entry (int -> float, name -> Enum, list -> tuple) and fails on another,
        # the second needs the entry as it was given
        td = lambda a, b: ["td", "T", [["fa", a, False, None], ["fb", b, False, None]]]  # noqa: E731
        pairs = [(td(["float"], ["int"]), td(["int"], ["str"])), (td(["enum", "Color"], ["int"]), td(["str"], ["str"])),
                 (td(["tuplevar", ["int"]], ["int"]), td(["list", ["int"]], ["str"])), (td(["float"], ["bool"]), td(["posint"], ["float"])),
                 (["list", td(["float"], ["int"])], ["list", td(["int"], ["str"])]), (["dict", td(["float"], ["int"])], ["dict", td(["int"], ["str"])]),
                 (["tuple", ["float"], ["int"]], ["tuple", ["int"], ["str"]]), (["dict", ["float"]], ["dict", ["union", ["int"], ["str"]]])]
        curated = st.sampled_from(pairs).flatmap(lambda pr: st.booleans().flatmap(lambda flip: cases(*(pr[::-1] if flip else pr))))
        return st.one_of(generic, generic, generic, curated)

    def dflt(sh):
        """a declared default that is ``==`` the given value but of another type (1 / 1.0 / True, [1] / [1.0]) must not change
        what the given value becomes: same accept/reject and same typed result as with a parser without that default"""
        if G.has_union(sh) or "dc" in G.kinds_in(sh) or "cls" in G.kinds_in(sh):
            return conf(sh)
        return G.conforming(sh).map(lambda v: {"rel": "dflt", "shape": sh, "value": v})

    return shapes.flatmap(lambda sh: st.one_of(conf(sh), conf(sh), conf(sh), near(sh), near(sh), text(sh), comp(sh), comp(sh), perm(sh), sibling(sh), sibling(sh), dflt(sh)))


# ------------------------------------------------------------------------------------------------- the property
def run_case(ctx, case):
    if case.get("kind") == "path":
        return path_family(ctx, only=case)
    if case.get("kind") == "fallback":
        return fallback_family(ctx, only=case)
    if case.get("kind") == "literal":
        return literal_family(ctx, only=case)
    rel, shape = case["rel"], case["shape"]
    ctx.cls("rel:" + rel)
    kinds = G.kinds_in(shape)
    deep = G.depth_of(shape) >= 2 or "union" in kinds
    converted = bool(kinds & {"enum", "float", "nnfloat", "unit", "tuple", "tuplevar", "set", "dictint", "dc", "posint"})
    rejected = False

    def sound(channel, res, given):
        if res[0] == "ok" and res[1] is not None and not G.conforms(shape, res[1]):
            ctx.finding(classify_nonconforming(shape, given, res[1], channel),
                        {"shape": shape, "given": given, "result": repr(res[1]), "channel": channel})

    if rel == "conf":
        v = case["value"]
        r = parse_obj(ctx, shape, v)
        sound("object", r, v)
        if r[0] != "ok":
            rejected = True
            ctx.finding("C02/conforming-value-rejected/" + top_kind_of_rejection(shape, v), {"shape": shape, "value": v, "error": r[1]})
        t = render(shape, v)
        if t is not None:
            ra = parse_argv(ctx, shape, t)
            sound("argv", ra, t)
            ctx.cls("argv:" + ra[0])
    elif rel == "near":
        v = case["value"]
        r = parse_obj(ctx, shape, v)
        sound("object", r, v)
        if r[0] == "ok":
            ctx.finding(classify_near_accept(shape, v, case.get("what", ""), r[1]),
                        {"shape": shape, "value": v, "what": case.get("what"), "result": repr(r[1])})
        else:
            rejected = True
        t = render(shape, v)
        if t is not None:
            ra = parse_argv(ctx, shape, t)
            sound("argv", ra, t)
    elif rel == "text":
        ra = parse_argv(ctx, shape, case["value"])
        sound("argv", ra, case["value"])
        rejected = ra[0] != "ok"
    elif rel == "comp":
        kd, vs = case["container"], case["values"]
        # "the element type accepts the element" is measured in a nested position (a one-element list), where neither the
        # top-level None rule (None = unset) nor the top-level YAML loading of strings applies ...
        el_ok = [parse_obj(ctx, ["list", shape], [v])[0] == "ok" for v in vs]
        # ... and, where those two documented top-level rules do not interfere, directly at top level as well
        for v, ok in zip(vs, el_ok):
            if v is None or (isinstance(v, str) and not leaf_typed(shape)):
                ctx.exclude("comp: top-level element check skipped (None or string at a non-leaf type)")
                continue
            if (parse_obj(ctx, shape, v)[0] == "ok") != ok:
                ctx.finding(f"C02/element-accepted-differently-at-top-level-and-nested/{'nested-accepts' if ok else 'top-accepts'}",
                            {"shape": shape, "value": v, "nested_accepts": ok})
        if kd == "list":
            cshape, cval = ["list", shape], list(vs)
        elif kd == "tuplevar":
            cshape, cval = ["tuplevar", shape], list(vs)
        elif kd == "tuple":
            cshape, cval = ["tuple"] + [shape] * len(vs), list(vs)
        elif kd == "set":
            if not G._hashable_list(vs) or not G._set_safe(vs):
                ctx.exclude("comp: unhashable/colliding set elements")
                return
            cshape, cval = ["set", shape], list(vs)
        elif kd == "dict":
            cshape, cval = ["dict", shape], {f"k{i}": v for i, v in enumerate(vs)}
        else:
            cshape, cval = ["dictint", shape], {i: v for i, v in enumerate(vs)}
        rc = parse_obj(ctx, cshape, cval)
        shape_for_sound = cshape
        if rc[0] == "ok" and rc[1] is not None and not G.conforms(shape_for_sound, rc[1]):
            ctx.finding(classify_nonconforming(cshape, cval, rc[1], "object"), {"shape": cshape, "given": cval, "result": repr(rc[1])})
        if (rc[0] == "ok") != all(el_ok):
            ctx.finding(f"C02/container-not-compositional/{kd}/container-{'accepts' if rc[0] == 'ok' else 'rejects'}",
                        {"container": cshape, "value": cval, "elements_accepted": el_ok, "container_result": short(rc[1], 200)})
        # the same container as one command line argument (JSON text): the whole text is loaded once, so the elements the
        # type sees are the same python values as on the object channel
        if _jsonable(cval):
            ra = parse_argv(ctx, cshape, json.dumps(G.to_jsonable(cval), ensure_ascii=False))
            if ra[0] == "ok" and ra[1] is not None and not G.conforms(cshape, ra[1]):
                ctx.finding(classify_nonconforming(cshape, cval, ra[1], "argv"), {"shape": cshape, "given": cval, "result": repr(ra[1])})
            if (ra[0] == "ok") != all(el_ok):
                ctx.finding(f"C02/container-not-compositional-argv/{kd}/container-{'accepts' if ra[0] == 'ok' else 'rejects'}",
                            {"container": cshape, "value": cval, "elements_accepted": el_ok, "container_result": short(ra[1], 200)})
        rejected = rc[0] != "ok"
        deep = True
    elif rel == "dflt":
        from jsonargparse import ArgumentError, ArgumentParser

        v = case["value"]
        if v is None:
            return
        try:
            default = G.expected(shape, v)
        except Exception:  # noqa
            return
        for how, given in (("same", v), ("retyped", _retype(v))):
            if how == "retyped" and not _differs_typed(given, v):
                continue
            base = parse_obj(ctx, shape, given)
            p = ArgumentParser(exit_on_error=False)
            try:
                p.add_argument("--x", type=G.to_type(shape), default=copy.deepcopy(default))
            except Exception:  # noqa
                return
            try:
                r = ("ok", p.parse_object({"x": copy.deepcopy(given)}).x)
            except ArgumentError as ex:
                r = ("rej", short(str(ex), 200))
            except Exception as ex:  # noqa
                r = ("rej", "escape " + fmt_exc(ex))
            ctx.cls(f"dflt:{how}:{r[0]}")
            if r[0] == "ok" and r[1] is not None and not G.conforms(shape, r[1]):
                ctx.finding(f"C02/nonconforming-result/object-with-equal-default/{first_bad_kind(shape, r[1])}", {"shape": shape, "default": repr(default), "given": given, "result": repr(r[1])})
            elif r[0] != base[0]:
                ctx.finding(f"C02/declared-default-changes-acceptance/{'accepted-only-with-default' if r[0] == 'ok' else 'rejected-only-with-default'}",
                            {"shape": shape, "default": repr(default), "given": given})
            elif r[0] == "ok" and G.diff(r[1], base[1], limit=1):
                ctx.finding("C02/declared-default-changes-the-converted-value", {"shape": shape, "default": repr(default), "given": given, "with_default": repr(r[1]), "without": repr(base[1])})
            rejected = rejected or r[0] != "ok"
    elif rel == "perm":
        members = shape[1:]
        v = case["value"]
        if v is None:
            return
        ch = case["channel"]
        if ch == "obj":
            fn = lambda sh: parse_obj(ctx, sh, v)  # noqa: E731
        else:
            t = v if ch == "argvtext" else json.dumps(G.to_jsonable(v), ensure_ascii=False) if _jsonable(v) else None
            if t is None:
                return
            fn = lambda sh: parse_argv(ctx, sh, t)  # noqa: E731
        outcomes = {}
        for pm in itertools.permutations(range(len(members))):
            sh = ["union"] + [members[i] for i in pm]
            r = fn(sh)
            if r[0] == "ok" and r[1] is not None and not G.conforms(sh, r[1]):
                ctx.finding(classify_nonconforming(sh, v, r[1], ch), {"shape": sh, "given": v, "result": repr(r[1]), "channel": ch})
            outcomes[pm] = r[0]
        if len(set(outcomes.values())) > 1:
            ctx.finding(f"C02/union-order-dependent-acceptance/{ch}", {"members": members, "value": v, "outcomes": {str(k): o for k, o in outcomes.items()}})
        any_member = any(fn(m)[0] == "ok" for m in members)
        first = outcomes[tuple(range(len(members)))]
        if (first == "ok") != any_member and len(set(outcomes.values())) == 1:
            ctx.finding(f"C02/union-vs-members/{ch}/union-{'accepts' if first == 'ok' else 'rejects'}",
                        {"members": members, "value": v, "union": first, "any_member": any_member})
        rejected = first != "ok"
        deep = True
    else:
        raise HarnessError(f"unknown relation {rel}")
    ctx.cls("outcome:" + ("rejected" if rejected else "accepted"))
    if deep and (rejected or converted):
        ctx.mark_nontrivial()
    for k in kinds:
        ctx.cls("kind:" + k)
    ctx.sample()


def _retype(v):
    """the same value by ``==`` with other leaf types: int <-> integral float, 0/1 <-> bool"""
    if isinstance(v, bool):
        return int(v)
    if isinstance(v, int):
        return bool(v) if v in (0, 1) else float(v) if abs(v) < 2**53 else v
    if isinstance(v, float):
        return int(v) if v.is_integer() and abs(v) < 2**53 else v
    if isinstance(v, list):
        return [_retype(x) for x in v]
    if isinstance(v, dict):
        return {k: _retype(x) for k, x in v.items()}
    return v


def _differs_typed(a, b):
    return bool(G.diff(a, b, limit=1))


def _jsonable(v):
    try:
        json.dumps(G.to_jsonable(v))
        return True
    except (TypeError, ValueError):
        return False


def top_kind_of_rejection(shape, v):
    if _empty_dict_at_dc_or_dict_union(shape, v):
        return "F45-empty-mapping-under-Union-of-dataclass-and-dict"
    return shape[0]


def _empty_dict_at_dc_or_dict_union(shape, v):
    """{} at a position typed Union[<dataclass with a required field>, Dict[...]] (F45: the lenient first pass commits to the dataclass
    member and turns {} into an empty Namespace, which the strict pass can then give to neither member)"""
    k = shape[0]
    if k == "opt":
        return v is not None and _empty_dict_at_dc_or_dict_union(shape[1], v)
    if k == "union":
        ms = G_flat_members(shape)
        if v == {} and any(m[0] == "dc" and any(not f[2] for f in m[2]) for m in ms) and any(m[0] in ("dict", "dictint") for m in ms):
            return True
        return False
    if k in ("list", "seq", "tuplevar", "set") and isinstance(v, list):
        return any(_empty_dict_at_dc_or_dict_union(shape[1], x) for x in v)
    if k in ("dict", "dictint") and isinstance(v, dict):
        return any(_empty_dict_at_dc_or_dict_union(shape[1], x) for x in v.values())
    if k == "tuple" and isinstance(v, list):
        return any(_empty_dict_at_dc_or_dict_union(t, x) for t, x in zip(shape[1:], v))
    if k in ("dc", "td") and isinstance(v, dict):
        f = {x[0]: x[1] for x in shape[2]}
        return any(n in f and _empty_dict_at_dc_or_dict_union(f[n], x) for n, x in v.items())
    return False


def G_flat_members(shape):
    if shape[0] in ("union", "opt"):
        return [x for m in shape[1:] for x in G_flat_members(m)]
    return [shape]


def classify_nonconforming(shape, given, result, channel):
    """narrow, input-anchored root-cause keys; anything else is 'unclassified'"""
    return f"C02/nonconforming-result/{channel}/{first_bad_kind(shape, result)}"


def first_bad_kind(shape, v):
    """kind of the innermost shape node whose value does not conform (locates the root cause)"""
    k = shape[0]
    try:
        if k == "opt" and v is not None:
            return first_bad_kind(shape[1], v)
        if k in ("list", "seq", "tuplevar", "set") and isinstance(v, (list, tuple, set)):
            for x in v:
                if not G.conforms(shape[1], x):
                    return k + ">" + first_bad_kind(shape[1], x)
        if k in ("dict", "dictint") and isinstance(v, dict):
            for a, b in v.items():
                if type(a) is not (str if k == "dict" else int):
                    return k + ">key:" + type(a).__name__
                if not G.conforms(shape[1], b):
                    return k + ">" + first_bad_kind(shape[1], b)
        if k == "tuple" and isinstance(v, tuple) and len(v) == len(shape) - 1:
            for t, x in zip(shape[1:], v):
                if not G.conforms(t, x):
                    return k + ">" + first_bad_kind(t, x)
        if k in ("dc", "td"):
            for name, t, _h, _d in shape[2]:
                x = v.get(name) if hasattr(v, "get") else None
                if x is not None and not G.conforms(t, x):
                    return k + ">" + first_bad_kind(t, x)
        if k == "union":
            return "union:" + type(v).__name__
    except Exception:  # noqa
        pass
    return f"{k}:{type(v).__name__}"


def classify_near_accept(shape, v, what, result):
    w = what.split(":")[-1] if what else ""
    return "C02/near-miss-accepted/" + w.split("<-")[0] + "<-" + type(_innermost(what, v)).__name__


def _innermost(what, v):
    # the broken value is the last thing named in `what`: recover its python type from the text
    txt = what.split("<-")[-1] if "<-" in what else ""
    try:
        import ast

        return ast.literal_eval(txt)
    except Exception:  # noqa
        return v


def body(ctx):
    def f(case):
        ctx.begin(case)
        run_case(ctx, case)
        ctx.end()

    return f


PATH_NAMES = ["plain.txt", "null", "Null", "true", "no", "1", "1.5", "1e3", "1.log", "[draft]", "{}", "{a: 1}", "a: b", "- x", "#c", "'q'", "1:30", "2001-01-01", ".5", "0x1F", "~x", "x y", "é", "*a", "&a"]


def path_family(ctx, only=None):
    """path types are types too: a string that names a creatable file (Path_fc) / an existing readable file (Path_fr) conforms, whatever a
    YAML reader would make of its text - at top level, as a list item, as a dict value, under Optional and in a Union; the result is a
    path whose spelling is the given string.  Enumerated completely (names x hints x channels)."""
    import tempfile
    from typing import Dict, List, Optional, Union

    from jsonargparse import ArgumentError, ArgumentParser
    from jsonargparse.typing import Path_fc, Path_fr

    old = os.getcwd()
    d = os.path.realpath(tempfile.mkdtemp(prefix="vf_c02p_"))
    try:
        os.chdir(d)
        os.mkdir("existing")
        for n in PATH_NAMES:
            with open(os.path.join("existing", n), "w") as f:
                f.write("x")
        hints = {"bare": lambda T: T, "optional": lambda T: Optional[T], "list-item": lambda T: List[T], "dict-value": lambda T: Dict[str, T], "union-with-int": lambda T: Union[int, T]}
        for tname, T, cwd in (("Path_fc", Path_fc, d), ("Path_fr", Path_fr, os.path.join(d, "existing"))):
            os.chdir(cwd)
            for hname, mk in hints.items():
                for name in PATH_NAMES:
                    for channel in ("argv", "object"):
                        case = {"kind": "path", "type": tname, "hint": hname, "name": name, "channel": channel}
                        if only is not None and case != only:
                            continue
                        try:
                            loaded = __import__("yaml").safe_load(name)
                        except Exception:  # noqa
                            loaded = name
                        if hname == "optional" and loaded is None:
                            continue  # a spelling of null ('null', '#c' ...) under Optional is None by nature (see F23)
                        if hname == "union-with-int" and isinstance(loaded, int):
                            continue  # an int as well ('1', '0x1F', '1:30')
                        ctx.begin(case)
                        ctx.evaluations += 0
                        p = ArgumentParser(exit_on_error=False)
                        p.add_argument("--p", type=mk(T))
                        wrap = {"list-item": lambda v: [v], "dict-value": lambda v: {"k": v}}.get(hname, lambda v: v)
                        try:
                            if channel == "object":
                                r = p.parse_object({"p": wrap(name)}).p
                            else:
                                r = p.parse_args(["--p=" + (name if hname not in ("list-item", "dict-value") else json.dumps(wrap(name), ensure_ascii=False))]).p
                            got = r[0] if hname == "list-item" else r["k"] if hname == "dict-value" else r
                            outcome = "ok"
                        except ArgumentError as ex:
                            outcome, got = "rejected", str(ex)[:200]
                        except Exception as ex:  # noqa
                            outcome, got = "raises", fmt_exc(ex)
                        ctx.cls(f"path-family:{tname}:{hname}:{outcome}")
                        ctx.mark_nontrivial_enumerated()
                        if outcome == "rejected":
                            ctx.finding(f"C02/path/conforming-name-rejected/{tname}/{hname}/{channel}", {"name": name, "error": got})
                        elif outcome == "raises":
                            ctx.cls("escape (C03)")
                        elif not isinstance(got, T) or str(got) != name:
                            ctx.finding(f"C02/path/result-is-not-the-named-path/{tname}/{hname}/{channel}", {"name": name, "got": repr(got)})
                        if not ctx.end(raise_on_fail=False):
                            return
    finally:
        os.chdir(old)
        import shutil

        shutil.rmtree(d, ignore_errors=True)


def fallback_family(ctx, only=None):
    """Union members are tried in turn: a value that an earlier member refuses - however it refuses it - and a later member accepts
    conforms to the Union.  Enumerated: (refusing member, accepting member, value) x {bare, list item, dict value} x {object, argv}."""
    import datetime
    import decimal
    import math
    import uuid
    from typing import Dict, List, Union

    from jsonargparse import ArgumentError, ArgumentParser
    from jsonargparse.typing import ClosedUnitInterval, NonNegativeFloat, PositiveFloat, PositiveInt

    big = 10 ** 400
    table = [("PositiveFloat|int", Union[PositiveFloat, int], big, int), ("NonNegativeFloat|int", Union[NonNegativeFloat, int], big, int), ("ClosedUnitInterval|int", Union[ClosedUnitInterval, int], big, int),
             ("float|int", Union[float, int], big, int), ("PositiveInt|float", Union[PositiveInt, float], float("inf"), float), ("PositiveInt|float:nan", Union[PositiveInt, float], float("nan"), float),
             ("Decimal|str", Union[decimal.Decimal, str], "abc", str), ("UUID|str", Union[uuid.UUID, str], "abc", str), ("timedelta|str", Union[datetime.timedelta, str], "abc", str),
             ("complex|str", Union[complex, str], "abc", str), ("range|str", Union[range, str], "abc", str), ("PositiveInt|str", Union[PositiveInt, str], "abc", str), ("int|str", Union[int, str], "abc", str)]
    for tname, T, value, want_type in table:
        for hname, mk, wrap, unwrap in (("bare", lambda t: t, lambda v: v, lambda r: r), ("list-item", lambda t: List[t], lambda v: [v], lambda r: r[0]), ("dict-value", lambda t: Dict[str, t], lambda v: {"k": v}, lambda r: r["k"])):
            for channel in ("object", "argv"):
                case = {"kind": "fallback", "union": tname, "hint": hname, "channel": channel}
                if only is not None and case != only:
                    continue
                ctx.begin(case)
                p = ArgumentParser(exit_on_error=False)
                p.add_argument("--p", type=mk(T))
                text = value if isinstance(value, str) else (".inf" if value == float("inf") else ".nan" if value != value else str(value))
                try:
                    if channel == "object":
                        r = p.parse_object({"p": wrap(value)}).p
                    else:
                        r = p.parse_args(["--p=" + (text if hname == "bare" else "[" + text + "]" if hname == "list-item" else "{k: " + text + "}")]).p
                    got, outcome = unwrap(r), "ok"
                except ArgumentError as ex:
                    outcome, got = "rejected", str(ex)[:300]
                except Exception as ex:  # noqa
                    outcome, got = "raises", fmt_exc(ex)
                ctx.cls(f"fallback-family:{outcome}")
                ctx.mark_nontrivial_enumerated()
                if outcome == "rejected":
                    ctx.finding(f"C02/union-fallback/value-of-a-later-member-rejected/{tname}/{hname}/{channel}", {"value": repr(value)[:60], "error": got})
                elif outcome == "raises":
                    ctx.cls("escape (C03)")
                    ctx.finding(f"C02/union-fallback/value-of-a-later-member-raises/{tname}/{hname}/{channel}", {"value": repr(value)[:60], "error": got})
                elif channel == "argv" and want_type is int and isinstance(got, float):
                    ctx.cls("fallback-family: digits on the command line are also a float text (first member wins, overlapping members)")
                elif type(got) is not want_type or not (got == value or (isinstance(value, float) and math.isnan(value) and math.isnan(got))):
                    ctx.finding(f"C02/union-fallback/result-is-not-the-value-as-the-later-member/{tname}/{hname}/{channel}", {"value": repr(value)[:60], "got": repr(got)[:60]})
                if not ctx.end(raise_on_fail=False):
                    return


import enum as _enum  # noqa: E402


class StrMode(str, _enum.Enum):
    fast = "f"
    slow = "s"


class IntMode(_enum.IntEnum):
    one = 1
    two = 2


class PlainMode(_enum.Enum):
    up = "u"
    down = "d"


def literal_family(ctx, only=None):
    """Literal[...] of Enum members (plain, str-mixin, IntEnum): the member's name - the spelling the Enum type itself takes - conforms,
    any other name does not.  Enumerated: enum kind x {bare, optional, list item, union with int} x {object, argv} x names."""
    from typing import List, Literal, Optional, Union

    from jsonargparse import ArgumentError, ArgumentParser

    table = {"str-mixin": (Literal[StrMode.fast, StrMode.slow], {"fast": StrMode.fast, "slow": StrMode.slow}),
             "int-enum": (Literal[IntMode.one], {"one": IntMode.one}), "plain": (Literal[PlainMode.up, "txt"], {"up": PlainMode.up, "txt": "txt"}),
             "mixed": (Literal[StrMode.fast, 3, "x"], {"fast": StrMode.fast, "x": "x"})}
    hints = {"bare": (lambda t: t, lambda v: v, lambda r: r), "optional": (lambda t: Optional[t], lambda v: v, lambda r: r),
             "list-item": (lambda t: List[t], lambda v: [v], lambda r: r[0]), "union-with-int": (lambda t: Union[int, t], lambda v: v, lambda r: r)}
    for tname, (T, good) in table.items():
        for hname, (mk, wrap, unwrap) in hints.items():
            for name in list(good) + ["zq7", "FAST"]:
                for channel in ("object", "argv"):
                    case = {"kind": "literal", "enum": tname, "hint": hname, "name": name, "channel": channel}
                    if only is not None and case != only:
                        continue
                    ctx.begin(case)
                    p = ArgumentParser(exit_on_error=False)
                    p.add_argument("--p", type=mk(T))
                    try:
                        if channel == "object":
                            r = p.parse_object({"p": wrap(name)}).p
                        else:
                            r = p.parse_args(["--p=" + (name if hname != "list-item" else json.dumps([name]))]).p
                        got, outcome = unwrap(r), "ok"
                    except ArgumentError as ex:
                        outcome, got = "rejected", str(ex)[:300]
                    except Exception as ex:  # noqa
                        outcome, got = "raises", fmt_exc(ex)
                    ctx.cls(f"literal-family:{outcome}")
                    ctx.mark_nontrivial_enumerated()
                    if name in good and outcome != "ok":
                        ctx.finding(f"C02/literal/member-name-{outcome}/{tname}/{hname}/{channel}", {"name": name, "error": got})
                    elif name in good and (got != good[name] or type(got) is not type(good[name])):
                        ctx.finding(f"C02/literal/result-is-not-the-member/{tname}/{hname}/{channel}", {"name": name, "got": repr(got)})
                    elif name not in good and outcome == "ok":
                        ctx.finding(f"C02/literal/foreign-name-accepted/{tname}/{hname}/{channel}", {"name": name, "got": repr(got)})
                    if not ctx.end(raise_on_fail=False):
                        return


def plan(tier):
    if tier == "quick":
        return [{"kind": "paths"}] + [{"n": 1200, "depth": 3} for _ in range(16)]
    return [{"kind": "paths"}] + [{"n": 20000, "depth": 4 if i % 2 else 3} for i in range(12)] + [{"kind": "atheris", "n": 40000, "depth": 3} for _ in range(4)]


def run_shard(spec, ctx):
    if spec.get("kind") == "paths":
        path_family(ctx)
        fallback_family(ctx)
        return literal_family(ctx)
    if spec.get("kind") == "atheris":
        from ..core import run_atheris

        ctx.cls("engine:atheris")
        return run_atheris(ctx, with_spellings(case_strategy(spec["depth"])), body(ctx), spec["n"])
    run_given(ctx, with_spellings(case_strategy(spec["depth"])), body(ctx), spec["n"])


def health(tier, evaluations, nontrivial, classes):
    acc, rej = classes.get("outcome:accepted", 0), classes.get("outcome:rejected", 0)
    msgs = []
    if acc + rej and min(acc, rej) / (acc + rej) < 0.2:
        msgs.append(f"accept/reject mix too skewed: accepted={acc} rejected={rej}")
    for r in ("conf", "near", "text", "comp", "perm", "dflt"):
        if classes.get("rel:" + r, 0) < 20:
            msgs.append(f"relation {r} nearly absent")
    return msgs


def self_test():
    from jsonargparse import Namespace

    S = ["tuple", ["int"], ["list", ["opt", ["enum", "Color"]]]]
    assert G.conforms(S, (1, [G.Color.red, None])) and not G.conforms(S, (True, [])) and not G.conforms(S, [1, []])
    assert not G.conforms(S, (1, ["red"])) and not G.conforms(S, (1, [], 3))
    assert G.conforms(["dict", ["float"]], {"a": 1.0}) and not G.conforms(["dict", ["float"]], {1: 1.0}) and not G.conforms(["dict", ["float"]], {"a": 1})
    assert G.conforms(["lit"], True) and G.conforms(["lit"], 1) and not G.conforms(["lit"], 1.0) and not G.conforms(["lit"], False)
    assert G.conforms(["unit"], 0.5) and not G.conforms(["unit"], 1.5) and not G.conforms(["posint"], 0) and not G.conforms(["posint"], True)
    assert G.expected(S, [1, ["red", None]]) == (1, [G.Color.red, None])
    assert G.typed_eq((1, [2.0]), (1, [2.0])) and not G.typed_eq((1, [2.0]), (1, [2])) and not G.typed_eq([1], (1,)) and not G.typed_eq({"a": 1, "b": 2}, {"b": 2, "a": 1})
    assert G.typed_eq(Namespace(a=1), Namespace(a=1)) and not G.typed_eq(Namespace(a=1), Namespace(a=True))

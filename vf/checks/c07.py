"""C07  Equivalent ways of declaring a nested group behave identically.

Domain   field lists (1-4 names, types from a table of leaves and containers, with default or required) declared as (a) individual
         dotted arguments, (b) a dataclass-typed argument, (c) add_class_arguments under a key, (d) an inner parser attached with
         ActionParser; inputs: mixes of dotted argv keys, '+' appends, config strings, per-leaf environment variables, objects, and
         whole-group JSON (--g '<json>', environment variable of the group) - valid and invalid.
Oracle   differential across the four parsers: same accept/reject decision, same typed nested values, same dump text in yaml, json and
         json_indented.  Whole-group inputs are compared among (b), (c), (d) only: style (a) declares no --g option by construction.
"""
import copy
import dataclasses
import json

from hypothesis import strategies as st

from ..core import HarnessError, fmt_exc, innermost_pkg_frame, run_given, short
from ..gen import types as G
from . import _rt

ID = "C07"
LEVEL = "exploration"
ENGINE = "hypothesis"
TECHNIQUE = "differential property-based testing of four equivalent declarations of one group of options against the same generated inputs"
LEVEL_TEXT = ("Thousands of generated field lists, each declared in the four styles, are fed the same mixes of command line, config, "
              "environment and object inputs (valid and invalid); decisions, typed values and dump texts must coincide. Exploration bounded "
              "by the type table and the number of inputs per case.")
LEVEL_NOTE = ("Trusted: the four builders (the equivalence rules - same declaration order with required fields first, Optional without default "
              "is default=None in the dotted and inner-parser styles - are the documented behaviour of signatures, see C12). Whole-group inputs "
              "exclude the dotted style, which has no such option by construction.")
RULE = ("case = (field list, input mix). non-trivial = the mix uses at least two channels or contains an invalid item. "
        "distinct = hash of the case")
ASSUMPTIONS = [
    "error *messages* may differ between styles; only accept/reject, values and dumps are compared",
    "help texts and option ordering in usage are not part of the statement",
]
STYLES = ["dotted", "dataclass", "class", "parser"]


def types_table():
    from typing import Dict, List, Optional, Tuple

    return {
        "int": (int, st.integers(0, 9)), "str": (str, st.sampled_from(["a", "b", "null", "1", "x y", ""])), "optint": (Optional[int], st.one_of(st.none(), st.integers(0, 9))),
        "bool": (bool, st.booleans()), "float": (float, st.sampled_from([0.5, 1.0, 2.5])), "listint": (List[int], st.lists(st.integers(0, 9), max_size=2)),
        "dictstrint": (Dict[str, int], st.dictionaries(st.sampled_from(["p", "q"]), st.integers(0, 9), max_size=2)),
        "tuple": (Tuple[int, str], st.tuples(st.integers(0, 9), st.sampled_from(["a", "b"])).map(list)),
        "color": (G.Color, st.sampled_from(["red", "green"])), "optliststr": (Optional[List[str]], st.one_of(st.none(), st.lists(st.sampled_from(["u", "v"]), max_size=2))),
        "posint": (__import__("jsonargparse.typing").typing.PositiveInt, st.integers(1, 9)),
    }


OPTIONAL_KINDS = ("optint", "optliststr")


@G._memo
def case_strategy():
    T = types_table()
    names = ["f1", "f2", "f3", "items"]

    def build(draw):
        flds = draw(st.lists(st.tuples(st.sampled_from(names), st.sampled_from(sorted(T)), st.booleans()), min_size=1, max_size=4, unique_by=lambda t: t[0]))
        fields = []
        for n, t, hasd in flds:
            fields.append([n, t, hasd, draw(T[t][1]) if hasd else None])
        fields.sort(key=lambda f: f[2])  # fields without default first (a python signature forces it); the dump follows declaration order
        tmap = {f[0]: f[1] for f in fields}
        items = []
        for _ in range(draw(st.integers(0, 4))):
            n = draw(st.sampled_from([f[0] for f in fields] + ["zz"]))
            t = tmap.get(n, "int")
            good = draw(st.integers(0, 5)) > 0
            v = draw(T[t][1]) if good else draw(st.sampled_from(["bad", [1, [2]], {"k": "v"}, 1.5, None]))
            kind = draw(st.sampled_from(["argv", "argv", "argv_append", "cfgstr", "obj", "env", "whole", "whole_env", "obj_dotted"]))
            items.append([kind, n, v])
        # make sure required fields get a value in most cases (through the object / config channel)
        fill = draw(st.integers(0, 4)) > 0
        req = [[f[0], draw(T[f[1]][1])] for f in fields if not f[2] and f[1] not in OPTIONAL_KINDS] if fill else []
        case = {"fields": fields, "items": items, "required_values": req}
        if all(f[2] for f in fields) and draw(st.integers(0, 2)) == 0:
            # the defaults of the group come from a default *instance* (dataclass / class styles) = per-leaf defaults (dotted / inner styles);
            # an override may be None where the type allows it
            case["override"] = {f[0]: draw(T[f[1]][1]) for f in fields if draw(st.booleans())}
        return case

    return st.composite(lambda draw: build(draw))()


_COUNT = [0]


def build_all(fields, override=None):
    from jsonargparse import ActionParser, ArgumentParser

    override = override or {}

    T = types_table()
    _COUNT[0] += 1
    n_ = _COUNT[0]
    out = {}
    tm = {f[0]: f[1] for f in fields}

    def mk():
        p = ArgumentParser(exit_on_error=False, prog="app", env_prefix="APP", default_env=False)
        p.add_argument("--cfg", action="config")
        return p

    def leaf_kwargs(f):
        name, t, hasd, dflt = f
        if name in override:
            return {"type": T[t][0], "default": conv(t, override[name])}
        if hasd:
            return {"type": T[t][0], "default": conv(t, dflt)}
        if t in OPTIONAL_KINDS:
            return {"type": T[t][0], "default": None}  # signature styles: Optional without default -> option defaulting to None
        return {"type": T[t][0], "required": True}

    p = mk()
    for f in fields:
        p.add_argument("--g." + f[0], **leaf_kwargs(f))
    out["dotted"] = p

    fl = []
    for name, t, hasd, dflt in fields:
        if hasd:
            fl.append((name, T[t][0], dataclasses.field(default_factory=(lambda v: (lambda: copy.deepcopy(v)))(conv(t, dflt)))))
        else:
            fl.append((name, T[t][0]))
    DC = dataclasses.make_dataclass(f"C07DC{n_}", fl)
    DC.__module__ = __name__
    globals()[DC.__name__] = DC
    p = mk()
    if override:
        p.add_argument("--g", type=DC, default=DC(**{n: conv(tm[n], v) for n, v in override.items()}))
    else:
        p.add_argument("--g", type=DC)
    out["dataclass"] = p

    params = ", ".join(f"{name}: T_{name}" + (f" = D_{name}" if hasd else "") for name, t, hasd, _d in fields)
    ns = {f"T_{f[0]}": T[f[1]][0] for f in fields}
    ns.update({f"D_{f[0]}": conv(f[1], f[3]) for f in fields if f[2]})
    exec(f"class C07K{n_}:\n    def __init__(self, {params}): pass\n", ns)  # noqa: S102
    K = ns[f"C07K{n_}"]
    K.__module__ = __name__
    globals()[K.__name__] = K
    p = mk()
    if override:
        p.add_class_arguments(K, "g", default={n: conv(tm[n], v) for n, v in override.items()})
    else:
        p.add_class_arguments(K, "g")
    out["class"] = p

    inner = ArgumentParser(exit_on_error=False)
    for f in fields:
        inner.add_argument("--" + f[0], **leaf_kwargs(f))
    p = mk()
    p.add_argument("--g", action=ActionParser(parser=inner))
    out["parser"] = p
    return out


def conv(t, v):
    if v is None:
        return None
    if t == "tuple":
        return tuple(v)
    if t == "color":
        return G.Color[v]
    return copy.deepcopy(v)


def run_style(case, p, style):
    from jsonargparse import ArgumentError

    argv, obj, env = [], {}, {}
    for n, v in case["required_values"]:
        obj.setdefault("g", {})[n] = copy.deepcopy(v)
    base_cfg = ["--cfg", json.dumps({"g": {n: v for n, v in case["required_values"]}})] if case["required_values"] else []
    whole_used = False
    for kind, n, v in case["items"]:
        raw = v if isinstance(v, str) else json.dumps(v)
        if kind == "argv":
            argv.append(f"--g.{n}={raw}")
        elif kind == "argv_append":
            argv.append(f"--g.{n}+={raw}")
        elif kind == "cfgstr":
            argv += ["--cfg", json.dumps({"g": {n: v}})]
        elif kind == "whole":
            whole_used = True
            argv.append("--g=" + json.dumps({n: v}))
        elif kind == "whole_env":
            whole_used = True
            env["APP_G"] = json.dumps({n: v})
        elif kind == "obj":
            obj.setdefault("g", {})[n] = copy.deepcopy(v)
        elif kind == "obj_dotted":
            obj["g." + n] = copy.deepcopy(v)
        elif kind == "env":
            env["APP_G__" + n.upper()] = raw
    if whole_used and style == "dotted":
        return None
    res = []
    for call in ("args", "obj", "env"):
        try:
            if call == "args":
                r = p.parse_args(base_cfg + argv)
            elif call == "obj":
                r = p.parse_object(copy.deepcopy(obj))
            else:
                full_env = dict(env)
                for n, v in case["required_values"]:
                    full_env.setdefault("APP_G__" + n.upper(), v if isinstance(v, str) else json.dumps(v))
                r = p.parse_env(full_env)
            c = _rt.clean(r)
            dumps = tuple(p.dump(copy.deepcopy(r), format=f) for f in _rt.FORMATS)
            res.append(("ok", c, dumps))
        except ArgumentError as ex:
            res.append(("err", short(str(ex), 150)))
        except Exception as ex:  # noqa
            res.append(("exc", f"{type(ex).__name__}@{innermost_pkg_frame(ex)}", fmt_exc(ex)))
    return res


def run_case(ctx, case):
    import warnings

    warnings.simplefilter("ignore")
    parsers = build_all(case["fields"], case.get("override"))
    results = {s: run_style(case, p, s) for s, p in parsers.items()}
    ref_style = "dataclass"
    ref = results[ref_style]
    for s in STYLES:
        r = results[s]
        if r is None:
            ctx.cls("whole-group input: dotted style left out")
            continue
        for i, call in enumerate(("parse_args", "parse_object", "parse_env")):
            a, b = r[i], ref[i]
            ctx.cls(f"{call}:{a[0]}")
            if a[0] == "exc":
                ctx.cls("escape (C03): " + a[1])
            ka, kb = ("ok" if a[0] == "ok" else "rej"), ("ok" if b[0] == "ok" else "rej")
            if ka != kb:
                ctx.finding(f"C07/{call}/decision-differs/{s}-{'accepts' if ka == 'ok' else 'rejects'}-dataclass-{'accepts' if kb == 'ok' else 'rejects'}",
                            {"style": s, "this": short(a[1], 200), "dataclass": short(b[1], 200)})
            elif ka == "ok":
                d = G.diff(a[1], b[1], limit=3)
                if d:
                    ctx.finding(f"C07/{call}/values-differ/{s}", {"style": s, "diff": short(d, 300)})
                elif a[2] != b[2]:
                    ctx.finding(f"C07/{call}/dump-differs/{s}", {"style": s, "this": short(a[2][0], 200), "dataclass": short(b[2][0], 200)})
    kinds = {k for k, _n, _v in case["items"]}
    channels = {"argv" if k.startswith("argv") or k in ("cfgstr", "whole") else "env" if "env" in k else "obj" for k in kinds}
    invalid = any(n == "zz" or v in ("bad", 1.5) or isinstance(v, (list, dict)) and v in ([1, [2]], {"k": "v"}) for _k, n, v in case["items"])
    if len(channels) >= 2 or invalid:
        ctx.mark_nontrivial()
    for k in kinds:
        ctx.cls("input:" + k)
    ctx.sample()


def body(ctx):
    def f(case):
        ctx.begin(case)
        run_case(ctx, case)
        ctx.end()

    return f


def plan(tier):
    if tier == "quick":
        return [{"n": 300} for _ in range(16)]
    return [{"n": 5000} for _ in range(16)]


def run_shard(spec, ctx):
    run_given(ctx, case_strategy(), body(ctx), spec["n"])


def health(tier, evaluations, nontrivial, classes):
    msgs = []
    for c in ("parse_args:ok", "parse_args:err", "parse_env:ok", "parse_object:ok", "input:whole", "input:whole_env", "input:argv_append", "input:env"):
        if classes.get(c, 0) < 20:
            msgs.append(f"class {c} nearly absent ({classes.get(c, 0)})")
    return msgs


def self_test():
    case = {"fields": [["f1", "int", False, None], ["f2", "listint", True, [1]]], "items": [["argv", "f1", 3], ["argv_append", "f2", 5]], "required_values": []}
    ps = build_all(case["fields"])
    rs = {s: run_style(case, p, s) for s, p in ps.items()}
    # (what the four parsers answer is the subject of the check, not of the self-test: only the harness plumbing is asserted here)
    for s in STYLES:
        assert rs[s] is not None and len(rs[s]) == 3 and rs[s][0][0] in ("ok", "err", "exc"), (s, rs[s])

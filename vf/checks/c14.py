"""C14  A class_path is checked against the declared type and built from its config.

Domain   a class family written to a real source file (base, subclasses that add / override / require parameters, a grandchild, a class
         taking **extra, abstract base + concrete, an unrelated class, functions returning the base / a subclass / an unrelated class,
         a non-class attribute) and a holder with nested Base, List[Base], Optional[Base], Dict[str, Base], Union[int, Base] parameters
         x generated specs: valid, wrong class, non-class import, missing module / attribute, unknown or ill-typed init_args,
         missing required init_args, dict_kwargs, class changes between sources (argv then argv, config then argv), and six
         notations (explicit object, explicit JSON on argv, short class name + dotted sub-options, --m.init_args.x, --m.class_path,
         config then options).
Oracle   a model of the family (parameter names / types / required per class) that the **interpreter validates** in the self-test;
         (a) accept iff the import is a subclass of the declared type (or a callable annotated to return one) and the init_args are valid
         for that very class; (b) after instantiate_classes: exact type, the constructor log shows one construction with exactly
         init_args + dict_kwargs, nested objects built before their holder and passed by identity, a second instantiation builds new
         objects; (c) every short notation yields a configuration typed-equal to the explicit one.
"""
import copy
import json

from hypothesis import strategies as st

from ..core import HarnessError, fmt_exc, innermost_pkg_frame, run_given, short
from ..gen import fam14 as FAM
from ..gen.fam14deep.sub import mod as _DEEP  # noqa: F401  (imported so that its class is a known subclass, like the rest of the family)
from ..gen import types as G
from . import _rt

ID = "C14"
LEVEL = "exploration"
ENGINE = "hypothesis"
TECHNIQUE = "property-based testing against an interpreter-validated model of a class family: accept/reject of specs, construction log of instantiate_classes, differential between notations"
LEVEL_TEXT = ("Thousands of generated specs per run against a family of eleven classes and four factories, through six notations and into five "
              "kinds of nested positions; acceptance is judged by the model, construction by the classes' own call log. Exploration: the family "
              "is fixed (its model is validated by the interpreter on every run), the specs and notations are generated.")
LEVEL_NOTE = ("Trusted: the family model (self-test: constructing with all modelled parameters succeeds, any other name raises TypeError) and the call "
              "log written by the classes themselves. An abstract class_path is accepted by the parser but is not 'instantiable'; clause (b) is "
              "conditioned exactly as the statement says.")
RULE = ("case = (position, spec kind, class, init_args, notation). non-trivial = the spec is invalid, or sits in a nested / list / dict / union "
        "position, or uses a short notation, or changes the class between sources. distinct = hash of the case")
ASSUMPTIONS = [
    "when the class changes between sources, init_args the new class does not accept are dropped; the rest of the statement applies to the final spec",
    "an unannotated callable is accepted by the parser (its return type cannot be checked); it is not generated as an invalid spec",
]
M = "vf.gen.fam14."
# parameters each class accepts: name -> (type tag, required)
MODEL = {
    "Base": {"a": ("int", False), "b": ("str", False)},
    "Child": {"c": ("float", False), "a": ("int", False), "b": ("str", False)},
    "Child2": {"a": ("str", False), "d": ("optint", False)},
    "Req": {"r": ("int", True), "a": ("int", False), "b": ("str", False)},
    "Loose": {"a": ("int", False)},
    "GrandChild": {"e": ("listint", False), "c": ("float", False), "a": ("int", False), "b": ("str", False)},
    "ViaHidden": {"v": ("int", False), "h": ("int", False), "a": ("int", False), "b": ("str", False)},  # reached through an underscore-named class
    "Widget": {"w": ("int", False), "a": ("int", False), "b": ("str", False)},  # lives three packages down; a *different* object is called Widget higher up
}
CP = {"Widget": "vf.gen.fam14deep.sub.mod.Widget"}
FACTORIES = {"make_base": ({"a": ("int", False)}, "Base"), "make_child": ({"c": ("float", False)}, "Child")}
NOT_SUB = ["Other", "not_a_class", "nothing_here", "Abstract", "Concrete", "LOG", "make_other", "Holder"]
NOT_SUB_PATHS = [M + x for x in NOT_SUB] + ["nomod.X", "os.path", "os", "", "vf.gen.fam14", "5"]
VAL = {"int": st.integers(0, 9), "str": st.sampled_from(["q", "w", "null", "1e3"]), "float": st.sampled_from([0.5, 1.5, 2]), "optint": st.one_of(st.none(), st.integers(0, 9)),
       "listint": st.lists(st.integers(0, 3), max_size=2)}
BADVAL = {"int": "xx", "str": [1], "float": "yy", "optint": "zz", "listint": 5}
NOTATIONS = ["explicit_obj", "explicit_argv", "short_name", "dotted", "class_path_opts", "cfg_then_argv"]
POSITIONS = ["m", "m", "m", "holder.inner", "holder.many", "holder.opt", "holder.table", "holder.u", "opt", "lst", "dct", "uni"]


@G._memo
def case_strategy():
    def build(draw):
        kind = draw(st.sampled_from(["valid", "valid", "valid", "valid", "wrongclass", "unknown_arg", "bad_type", "missing_req", "dict_kwargs", "factory", "class_change", "default_short"]))
        if kind == "default_short":
            return {"kind": kind, "pos": "md", "a": draw(st.integers(0, 9)), "notation": "short",
                    "channel": draw(st.sampled_from(["parse_string", "parse_object", "parse_object(defaults=False)", "argv", "argv-json", "environment", "default_config_file"]))}
        pos = draw(st.sampled_from(POSITIONS))
        cls = draw(st.sampled_from(sorted(MODEL)))
        if kind == "wrongclass":
            cp = draw(st.sampled_from(NOT_SUB_PATHS))
            params = {}
        elif kind == "factory":
            f = draw(st.sampled_from(sorted(FACTORIES)))
            cp, params, cls = M + f, FACTORIES[f][0], f
        else:
            cp, params = CP.get(cls, M + cls), MODEL[cls]
        ia = {}
        for k, (t, req) in params.items():
            if req and kind != "missing_req":
                ia[k] = draw(VAL[t])
            elif not req and draw(st.booleans()):
                ia[k] = draw(VAL[t])
        if kind == "missing_req" and not any(r for _t, r in params.values()):
            kind = "valid"
        if kind == "unknown_arg":
            ia["zq9"] = 1
        if kind == "bad_type":
            k = draw(st.sampled_from(sorted(params)))
            ia[k] = BADVAL[params[k][0]]
        dk = None
        if kind == "dict_kwargs":
            cls, cp, params = "Loose", M + "Loose", MODEL["Loose"]
            ia = {"a": draw(VAL["int"])} if draw(st.booleans()) else {}
            dk = {"x1": draw(st.integers(0, 9)), "x2": draw(st.sampled_from(["s", [1]]))}
        change = None
        if kind == "class_change":
            first = draw(st.sampled_from(sorted(MODEL)))
            fia = {k: draw(VAL[t]) for k, (t, req) in MODEL[first].items() if req or draw(st.booleans())}
            change = {"first": first, "first_init_args": fia, "how": draw(st.sampled_from(["argv-argv", "cfg-argv"]))}
            pos = "m"
        if kind == "valid" and pos == "holder.inner" and draw(st.booleans()):
            kind = "nested_two_sources"
        if kind == "valid" and pos == "dct" and draw(st.booleans()):
            # the same entry built from two sources: the class (and some init_args) first, then an init_args-only short form
            kind = "two_sources"
        notation = draw(st.sampled_from(NOTATIONS))
        return {"kind": kind, "pos": pos, "cls": cls, "class_path": cp, "init_args": ia, "dict_kwargs": dk, "notation": notation, "change": change}

    return st.composite(lambda draw: build(draw))()


def build_parser():
    from typing import Dict, List, Optional, Union

    from jsonargparse import ArgumentParser

    p = ArgumentParser(exit_on_error=False)
    p.add_argument("--cfg", action="config")
    p.add_argument("--m", type=FAM.Base)
    p.add_argument("--holder", type=FAM.Holder)
    p.add_argument("--opt", type=Optional[FAM.Base])
    p.add_argument("--lst", type=List[FAM.Base])
    p.add_argument("--dct", type=Dict[str, FAM.Base])
    p.add_argument("--uni", type=Union[int, FAM.Base])
    return p


def raw(v):
    return v if isinstance(v, str) else json.dumps(v)


def spec_of(case):
    s = {"class_path": case["class_path"]}
    if case["init_args"]:
        s["init_args"] = copy.deepcopy(case["init_args"])
    if case["dict_kwargs"]:
        s["dict_kwargs"] = copy.deepcopy(case["dict_kwargs"])
    return s


def wrap(pos, spec):
    """the object that puts ``spec`` at the position"""
    valid_inner = {"class_path": M + "Base"}
    if pos == "m":
        return {"m": spec}
    if pos == "holder.inner":
        return {"holder": {"class_path": M + "Holder", "init_args": {"inner": spec}}}
    if pos == "holder.many":
        return {"holder": {"class_path": M + "Holder", "init_args": {"inner": valid_inner, "many": [valid_inner, spec]}}}
    if pos == "holder.opt":
        return {"holder": {"class_path": M + "Holder", "init_args": {"inner": valid_inner, "opt": spec}}}
    if pos == "holder.table":
        return {"holder": {"class_path": M + "Holder", "init_args": {"inner": valid_inner, "table": {"k1": spec}}}}
    if pos == "holder.u":
        return {"holder": {"class_path": M + "Holder", "init_args": {"inner": valid_inner, "u": spec}}}
    if pos == "opt":
        return {"opt": spec}
    if pos == "lst":
        return {"lst": [spec, valid_inner]}
    if pos == "dct":
        return {"dct": {"first": valid_inner, "second": spec}}
    if pos == "uni":
        return {"uni": spec}
    raise HarnessError(pos)


def spec_at(cfg, pos):
    if pos == "m":
        return cfg.m
    if pos == "holder.inner":
        return cfg.holder.init_args.inner
    if pos == "holder.many":
        return cfg.holder.init_args.many[1]
    if pos == "holder.opt":
        return cfg.holder.init_args.opt
    if pos == "holder.table":
        return cfg.holder.init_args.table["k1"]
    if pos == "holder.u":
        return cfg.holder.init_args.u
    if pos == "opt":
        return cfg.opt
    if pos == "lst":
        return cfg.lst[0]
    if pos == "dct":
        return cfg.dct["second"]
    return cfg.uni


def obj_at(init, pos):
    if pos == "m":
        return init.m
    if pos.startswith("holder."):
        h = init.holder
        return {"inner": h.inner, "many": h.many[1] if len(h.many) > 1 else None, "opt": h.opt, "table": h.table.get("k1"), "u": h.u}[pos.split(".")[1]]
    if pos == "opt":
        return init.opt
    if pos == "lst":
        return init.lst[0]
    if pos == "dct":
        return init.dct["second"]
    return init.uni


def parse_notation(p, case):
    """parse the spec at position 'm' through the chosen notation"""
    cp, ia, dk, notation = case["class_path"], case["init_args"], case["dict_kwargs"], case["notation"]
    shortname = cp.split(".")[-1] if case["kind"] not in ("wrongclass", "factory") else cp  # only subclasses are addressable by bare name
    dkopts = [f"--m.dict_kwargs.{k}={raw(v)}" for k, v in (dk or {}).items()]
    if notation == "explicit_obj":
        return p.parse_object({"m": spec_of(case)})
    if notation == "explicit_argv":
        return p.parse_args(["--m", json.dumps(spec_of(case))])
    if notation == "short_name":
        return p.parse_args(["--m", shortname] + [f"--m.{k}={raw(v)}" for k, v in ia.items()] + dkopts)
    if notation == "dotted":
        return p.parse_args(["--m", cp] + [f"--m.init_args.{k}={raw(v)}" for k, v in ia.items()] + dkopts)
    if notation == "class_path_opts":
        return p.parse_args(["--m.class_path", cp] + [f"--m.init_args.{k}={raw(v)}" for k, v in ia.items()] + dkopts)
    return p.parse_args(["--cfg", json.dumps({"m": {"class_path": cp}})] + [f"--m.{k}={raw(v)}" for k, v in ia.items()] + dkopts)


def expected_kwargs(case):
    """what the constructor must receive for the keys that were configured"""
    params = FACTORIES[case["cls"]][0] if case["kind"] == "factory" else MODEL[case["cls"]]
    out = {}
    for k, v in case["init_args"].items():
        out[k] = float(v) if params[k][0] == "float" else v
    out.update(case["dict_kwargs"] or {})
    return out


def null_string_artifact(case):
    """a str-typed init_arg spelled 'null' in a command line sub-option arrives as None (recorded finding F23c)"""
    params = MODEL.get(case["cls"], {})
    return any(v == "null" and params.get(k, ("", 0))[0] == "str" for k, v in case["init_args"].items())


def run_default_short(ctx, case):
    """init_args without class_path for an argument whose *default* names the class: the spec denotes that class, through every
    channel - also those that start from an empty configuration (parse_string, parse_object with defaults=False, the environment,
    a default config file)"""
    import os
    import warnings

    from jsonargparse import ArgumentError, ArgumentParser

    warnings.simplefilter("ignore")
    a, ch = case["a"], case["channel"]
    short_spec = {"init_args": {"a": a}}
    ctx.cls("default-short:" + ch)
    ctx.mark_nontrivial()
    old_env = dict(os.environ)
    try:
        with _rt.scratch_dir() as d:
            kw = {}
            if ch == "default_config_file":
                f = os.path.join(d, "defaults.yaml")
                with open(f, "w") as fh:
                    fh.write(json.dumps({"md": short_spec}))
                kw["default_config_files"] = [f]
            # an argument whose default is a class spec (next to an ordinary one, so that the configuration is not empty otherwise)
            p = ArgumentParser(exit_on_error=False, **kw)
            p.add_argument("--cfg", action="config")
            p.add_argument("--n", type=int, default=1)
            p.add_argument("--md", type=FAM.Base, default={"class_path": M + "Child", "init_args": {"c": 1.5}})
            try:
                if ch == "parse_string":
                    cfg = p.parse_string(json.dumps({"md": short_spec}))
                elif ch == "parse_object":
                    cfg = p.parse_object({"md": short_spec})
                elif ch == "parse_object(defaults=False)":
                    cfg = p.parse_object({"md": short_spec}, defaults=False)
                elif ch == "argv":
                    cfg = p.parse_args([f"--md.init_args.a={a}"])
                elif ch == "argv-json":
                    cfg = p.parse_args(["--md=" + json.dumps(short_spec)])
                elif ch == "environment":
                    q = ArgumentParser(exit_on_error=False, default_env=True, env_prefix="VF14")
                    q.add_argument("--md", type=FAM.Base, default={"class_path": M + "Child", "init_args": {"c": 1.5}})
                    os.environ["VF14_MD"] = json.dumps(short_spec)
                    p = q
                    cfg = q.parse_args([])
                else:
                    cfg = p.parse_args([])
            except ArgumentError as ex:
                ctx.finding(f"C14/default-short/rejected/{ch}", {"error": short(str(ex), 300)})
                return
            del FAM.LOG[:]
            try:
                obj = p.instantiate_classes(cfg).md
            except Exception as ex:  # noqa
                ctx.finding(f"C14/default-short/instantiation-raises:{type(ex).__name__}/{ch}", {"error": fmt_exc(ex), "spec": short(cfg.md, 200)})
                return
            if type(obj).__name__ != "Child" or obj.a != a:
                ctx.finding(f"C14/default-short/instance-of-wrong-class-or-value/{ch}", {"got": type(obj).__name__, "a": getattr(obj, "a", None), "expected": ["Child", a]})
    finally:
        os.environ.clear()
        os.environ.update(old_env)


def run_case(ctx, case):
    if case.get("kind") == "dclike":
        return dataclass_like_family(ctx, only=case)
    if case.get("kind") == "listrepl":
        return list_replaced_family(ctx, only=case)
    import warnings

    from jsonargparse import ArgumentError, Namespace

    warnings.simplefilter("ignore")
    p = build_parser()
    kind, pos = case["kind"], case["pos"]
    ctx.cls("kind:" + kind)
    ctx.cls("pos:" + pos)
    if kind == "default_short":
        return run_default_short(ctx, case)
    if kind == "class_change":
        return run_class_change(ctx, case, p)
    if kind == "two_sources":
        return run_two_sources(ctx, case, p)
    if kind == "nested_two_sources":
        return run_nested_two_sources(ctx, case, p)
    expect_ok = kind in ("valid", "dict_kwargs", "factory")
    use_notation = pos == "m"
    try:
        cfg = parse_notation(p, case) if use_notation else p.parse_object(wrap(pos, spec_of(case)))
        ok, err = True, None
    except ArgumentError as ex:
        ok, err = False, str(ex)
    except Exception as ex:  # noqa
        ctx.cls(f"escape (C03): {type(ex).__name__}@{innermost_pkg_frame(ex)}")
        ok, err = False, fmt_exc(ex)
    if kind != "valid" or pos != "m" or case["notation"] != "explicit_obj":
        ctx.mark_nontrivial()
    where = f"{pos}/{case['notation'] if use_notation else 'object'}"
    if ok != expect_ok:
        if ok:
            ctx.finding(f"C14/invalid-spec-accepted/{kind}/{where}", {"class_path": case["class_path"], "init_args": case["init_args"], "result": short(spec_at(cfg, pos), 300)})
        else:
            ctx.finding(f"C14/valid-spec-rejected/{kind}/{where}", {"class_path": case["class_path"], "init_args": case["init_args"], "error": short(err, 300)})
        return
    if not ok:
        return
    # (c) short notations denote the same configuration as the explicit form
    if use_notation and case["notation"] != "explicit_obj":
        ref = build_parser().parse_object({"m": spec_of(case)})
        d = G.diff(cfg.m, ref.m, limit=3)
        if d and null_string_artifact(case) and all(x[1] is None and x[2] == "null" for x in d):
            ctx.finding("C14/F23/str-init_arg-spelled-null-in-a-sub-option-becomes-None", {"notation": case["notation"], "diff": short(d, 200)})
            return
        if d:
            ctx.finding(f"C14/notation-differs-from-explicit-form/{case['notation']}", {"diff": short(d, 300), "this": short(cfg.m, 200), "explicit": short(ref.m, 200)})
    # (b) instantiation
    del FAM.LOG[:]
    try:
        init = p.instantiate_classes(cfg)
    except Exception as ex:  # noqa
        ctx.finding(f"C14/instantiation-raises:{type(ex).__name__}/{kind}/{pos}", {"error": fmt_exc(ex), "spec": short(spec_at(cfg, pos), 300)})
        return
    log = list(FAM.LOG)
    obj = obj_at(init, pos)
    want_cls = FACTORIES[case["cls"]][1] if kind == "factory" else case["cls"]
    if type(obj).__name__ != want_cls:
        ctx.finding(f"C14/instance-of-wrong-class/{kind}/{pos}", {"expected": want_cls, "got": type(obj).__name__})
        return
    exp = expected_kwargs(case)
    if kind != "factory":
        mine = [e for e in log if e[0] == want_cls and e[1] == want_cls]
        # the holder positions construct a valid Base as well: look at entries whose kwargs match this spec's object
        mine = [e for e in mine if all(getattr(obj, "extra", {}).get(k, getattr(obj, k, None)) == v or k in (getattr(obj, "extra", {}) or {}) for k, v in e[2].items() if k in exp)]
        same_obj_entries = [e for e in log if e[0] == want_cls and e[1] == want_cls]
        companions = {"holder.many": 2, "holder.opt": 1, "holder.table": 1, "holder.u": 1, "lst": 1, "dct": 1}.get(pos, 0)  # valid Base specs placed next to this one
        n_expected_same_class = 1 + (companions if want_cls == "Base" else 0)
        if len(same_obj_entries) != n_expected_same_class:
            ctx.finding(f"C14/class-not-constructed-exactly-once/{pos}", {"class": want_cls, "log": short(log, 400)})
            return
        got_kwargs = None
        for e in same_obj_entries:
            if all(e[2].get(k) == v for k, v in exp.items()):
                got_kwargs = e[2]
        if got_kwargs is None:
            ctx.finding(f"C14/constructor-did-not-receive-the-configured-arguments/{kind}/{pos}", {"configured": exp, "log": short(same_obj_entries, 400)})
            return
        if kind == "dict_kwargs" and any(k not in got_kwargs for k in case["dict_kwargs"]):
            ctx.finding("C14/dict_kwargs-not-passed", {"configured": exp, "received": got_kwargs})
    for k, v in exp.items():
        have = getattr(obj, "extra", {}).get(k) if k in (getattr(obj, "extra", None) or {}) else getattr(obj, k, "__missing__")
        if have != v:
            ctx.finding(f"C14/object-state-differs-from-configuration/{kind}", {"param": k, "configured": v, "object_has": short(have, 100)})
    if pos.startswith("holder."):
        names = [e[1] for e in log]
        if names[-1] != "Holder":
            ctx.finding("C14/holder-constructed-before-its-nested-objects", {"order": names})
        hk = [e for e in log if e[0] == "Holder"][0][2]
        passed = {"inner": hk["inner"], "many": hk["many"][1] if len(hk["many"]) > 1 else None, "opt": hk["opt"], "table": hk["table"].get("k1"), "u": hk["u"]}[pos.split(".")[1]]
        if passed is not obj:
            ctx.finding("C14/nested-object-not-passed-by-identity", {"pos": pos, "passed": short(passed, 100)})
    init2 = p.instantiate_classes(cfg)
    if obj_at(init2, pos) is obj:
        ctx.finding(f"C14/second-instantiation-returns-the-same-object/{pos}", {})
    ctx.sample()


def run_two_sources(ctx, case, p):
    """Dict[str, Base]: entry 'second' gets its class from a first config and (some of) its init_args from a later, init_args-only
    source; every entry must keep its class and accumulate the arguments"""
    from jsonargparse import ArgumentError

    ctx.mark_nontrivial()
    cp, ia = case["class_path"], case["init_args"]
    keys = sorted(ia)
    early = {k: ia[k] for k in keys[: len(keys) // 2]}
    late = {k: ia[k] for k in keys[len(keys) // 2:]}
    req = [k for k, (t, r) in MODEL[case["cls"]].items() if r]
    for k in req:  # required arguments must come with the class
        if k in late:
            early[k] = late.pop(k)
    first = {"dct": {"first": {"class_path": M + "Child", "init_args": {"c": 1.5}}, "second": {"class_path": cp, "init_args": early}}}
    # a later source replaces the dict as a whole (C04), so it names every entry; each entry is given in short form (init_args only)
    second_src = {"dct": {"first": {"init_args": {"a": 4}}, "second": {"init_args": late}}}
    how = case["notation"]
    try:
        if how in ("explicit_obj", "explicit_argv", "cfg_then_argv"):
            cfg = p.parse_args(["--cfg", json.dumps(first), "--cfg", json.dumps(second_src)])
        else:
            # the documented 'key.item' form: one dict item per option, each in short form
            opts = ["--dct.first=" + json.dumps({"init_args": {"a": 4}}), "--dct.second=" + json.dumps({"init_args": late})]
            cfg = p.parse_args(["--cfg", json.dumps(first)] + opts)
    except ArgumentError as ex:
        ctx.finding("C14/two-sources/valid-accumulation-rejected", {"error": short(str(ex), 300), "first": first, "second": second_src})
        return
    except Exception as ex:  # noqa
        ctx.cls(f"escape (C03): {type(ex).__name__}")
        return
    want = {"first": ("Child", {"c": 1.5, "a": 4}), "second": (case["cls"], expected_kwargs(case))}
    if any(v == "null" for v in ia.values()) and how not in ("explicit_obj", "explicit_argv", "cfg_then_argv"):
        return  # (F23c territory, judged in the single-source cases)
    for key, (cls, kwargs) in want.items():
        spec = cfg.dct[key]
        if not spec.class_path.endswith("." + cls):
            ctx.finding("C14/two-sources/entry-lost-its-class", {"key": key, "expected": cls, "got": spec.class_path})
            return
        have = spec.get("init_args")
        for k, v in kwargs.items():
            if have is None or have.get(k) != v:
                ctx.finding("C14/two-sources/init_arg-of-an-earlier-or-later-source-lost", {"key": key, "param": k, "expected": v, "have": short(have, 200)})
                return
    del FAM.LOG[:]
    try:
        init = p.instantiate_classes(cfg)
    except Exception as ex:  # noqa
        ctx.finding(f"C14/two-sources/instantiation-raises:{type(ex).__name__}", {"error": fmt_exc(ex)})
        return
    for key, (cls, _kw) in want.items():
        if type(init.dct[key]).__name__ != cls:
            ctx.finding("C14/two-sources/instance-of-wrong-class", {"key": key, "expected": cls, "got": type(init.dct[key]).__name__})


def run_nested_two_sources(ctx, case, p):
    """Holder(inner: Base): an earlier source names the nested class (and some init_args), a later source refines the nested
    parameter in short form (init_args only); the nested object must be of the class named earlier with the arguments of both"""
    from jsonargparse import ArgumentError

    ctx.mark_nontrivial()
    cp, ia = case["class_path"], case["init_args"]
    keys = sorted(ia)
    early = {k: ia[k] for k in keys[: len(keys) // 2]}
    late = {k: ia[k] for k in keys[len(keys) // 2:]}
    for k, (t, r) in MODEL[case["cls"]].items():
        if r and k in late:
            early[k] = late.pop(k)
    if any(v == "null" for v in ia.values()):
        return  # (F23c territory)
    if case["notation"] == "dotted" and any(v is None for v in late.values()):
        ctx.exclude("None for a twice-nested dotted sub-option (its 'null' spelling is not loaded at that depth: observed, outside this scenario)")
        return
    first = {"holder": {"class_path": M + "Holder", "init_args": {"inner": {"class_path": cp, "init_args": early}}}}
    second = {"holder": {"init_args": {"inner": {"init_args": late}}}}
    how = case["notation"]
    try:
        if how in ("explicit_obj", "cfg_then_argv"):
            cfg = p.parse_args(["--cfg", json.dumps(first), "--cfg", json.dumps(second)])
        elif how == "explicit_argv":
            cfg = p.parse_args(["--cfg", json.dumps(first), "--holder", json.dumps(second["holder"])])
        elif how == "short_name":
            cfg = p.parse_args(["--cfg", json.dumps(first), "--holder.inner", json.dumps({"init_args": late})])
        elif how == "dotted":
            cfg = p.parse_args(["--cfg", json.dumps(first)] + [f"--holder.init_args.inner.init_args.{k}={raw(v)}" for k, v in late.items()])
        else:
            cfg = p.parse_object(second, cfg_base=p.parse_object(first))
    except ArgumentError as ex:
        ctx.finding(f"C14/nested-two-sources/valid-refinement-rejected/{how}", {"error": short(str(ex), 300), "first": first, "second": second})
        return
    except Exception as ex:  # noqa
        ctx.cls(f"escape (C03): {type(ex).__name__}")
        return
    spec = cfg.holder.init_args.inner
    if not spec.class_path.endswith("." + case["cls"]):
        ctx.finding(f"C14/nested-two-sources/nested-class-lost/{how}", {"expected": case["cls"], "got": spec.class_path})
        return
    have = spec.get("init_args")
    for k, v in expected_kwargs(case).items():
        if have is None or have.get(k) != v:
            ctx.finding(f"C14/nested-two-sources/init_arg-lost/{how}", {"param": k, "expected": v, "have": short(have, 200)})
            return
    del FAM.LOG[:]
    try:
        init = p.instantiate_classes(cfg)
    except Exception as ex:  # noqa
        ctx.finding(f"C14/nested-two-sources/instantiation-raises:{type(ex).__name__}", {"error": fmt_exc(ex)})
        return
    if type(init.holder.inner).__name__ != case["cls"] or [e[1] for e in FAM.LOG][-1] != "Holder":
        ctx.finding("C14/nested-two-sources/wrong-nested-object-or-order", {"inner": type(init.holder.inner).__name__, "order": [e[1] for e in FAM.LOG]})


def run_class_change(ctx, case, p):
    from jsonargparse import ArgumentError

    ch = case["change"]
    first, fia = ch["first"], ch["first_init_args"]
    final, ia = case["cls"], case["init_args"]
    ctx.mark_nontrivial()
    first_opts = [f"--m.{k}={raw(v)}" for k, v in fia.items()]
    later = ["--m", final] + [f"--m.{k}={raw(v)}" for k, v in ia.items()]
    try:
        if ch["how"] == "argv-argv":
            cfg = p.parse_args(["--m", first] + first_opts + later)
        else:
            cfg = p.parse_args(["--cfg", json.dumps({"m": {"class_path": CP.get(first, M + first), "init_args": fia}})] + later)
    except ArgumentError as ex:
        ctx.finding(f"C14/class-change-rejected/{ch['how']}", {"first": first, "final": final, "error": short(str(ex), 300)})
        return
    except Exception as ex:  # noqa
        ctx.cls(f"escape (C03): {type(ex).__name__}")
        return
    if not cfg.m.class_path.endswith("." + final):
        ctx.finding("C14/class-change/final-class-is-not-the-last-one-named", {"got": cfg.m.class_path, "expected": final})
        return
    have = cfg.m.get("init_args")
    keys = set(have.keys()) if have is not None else set()
    extra = keys - set(MODEL[final])
    if extra:
        ctx.finding("C14/class-change/stale-init_args-of-the-previous-class-kept", {"stale": sorted(extra), "first": first, "final": final})
        return
    for k, v in ia.items():
        want = float(v) if MODEL[final][k][0] == "float" else v
        if v == "null" and MODEL[final][k][0] == "str" and have is not None and have.get(k) is None:
            ctx.finding("C14/F23/str-init_arg-spelled-null-in-a-sub-option-becomes-None", {"notation": "class_change", "param": k})
            return
        if have is None or have.get(k) != want:
            ctx.finding("C14/class-change/argument-given-after-the-change-lost", {"param": k, "given": want, "have": short(have, 200)})
    del FAM.LOG[:]
    try:
        obj = p.instantiate_classes(cfg).m
    except Exception as ex:  # noqa
        ctx.finding(f"C14/class-change/instantiation-raises:{type(ex).__name__}", {"error": fmt_exc(ex), "spec": short(cfg.m, 300)})
        return
    if type(obj).__name__ != final:
        ctx.finding("C14/class-change/instance-of-wrong-class", {"got": type(obj).__name__, "expected": final})


def dataclass_like_family(ctx, only=None):
    """arguments whose declared type is a dataclass, a final class (next to or instead of an ordinary class in an Optional / Union) or a
    Protocol: a class_path is accepted only if it names the declared (dataclass-like) class, a subclass of the ordinary member or a class
    that implements every method of the protocol with the protocol's signature; the named class is what gets built.  Enumerated.
    (Union[Engine, DSettings] - the ordinary class first - is left out: a parsed dataclass value is a plain mapping of its fields, which
    the ordinary class then reads as its own init_args in short form; with overlapping parameter names the hint itself is ambiguous.)"""
    import warnings
    from typing import List, Optional, Union

    from jsonargparse import ArgumentError, ArgumentParser, Namespace

    from ..gen import fam14 as Fm

    warnings.simplefilter("ignore")
    M = "vf.gen.fam14."
    hints = {"either": Union[Fm.DSettings, Fm.Engine], "sealed": Optional[Fm.Sealed], "settings": Optional[Fm.DSettings],
             "model": Fm.Model, "optmodel": Optional[Fm.Model], "models": List[Fm.Model]}
    ok = {"either": {"DSettings", "Engine"}, "sealed": {"Sealed"}, "settings": {"DSettings"},
          "model": {"FullModel"}, "optmodel": {"FullModel"}, "models": {"FullModel"}}
    candidates = {"either": ["DSettings", "Engine", "Unrelated"], "sealed": ["Sealed", "Unrelated", "Engine", "os.getcwd"],
                  "settings": ["DSettings", "Unrelated", "Engine"], "model": ["FullModel", "OnlyFit", "WrongSig", "NoMethods", "os.getcwd"],
                  "optmodel": ["FullModel", "OnlyFit", "WrongSig"], "models": ["FullModel", "OnlyFit", "NoMethods"]}
    for arg, cands in candidates.items():
        for cname in cands:
            for channel in ("argv", "object"):
                case = {"kind": "dclike", "argument": arg, "class": cname, "channel": channel}
                if only is not None and case != only:
                    continue
                if only is None:
                    ctx.begin(case)
                ctx.cls("dclike:" + arg)
                cp = cname if "." in cname else M + cname
                spec = {"class_path": cp, "init_args": {"size": 7}} if "." not in cname else {"class_path": cp}
                val = [spec] if arg == "models" else spec
                p = ArgumentParser(exit_on_error=False)
                p.add_argument("--" + arg, type=hints[arg])
                try:
                    cfg = p.parse_args([f"--{arg}=" + json.dumps(val)]) if channel == "argv" else p.parse_object({arg: val})
                    got = "ok"
                except ArgumentError:
                    got = "rej"
                except Exception as ex:  # noqa
                    got = "esc"
                    ctx.cls(f"escape (C03): {type(ex).__name__}")
                want = "ok" if cname in ok[arg] else "rej"
                if got == "ok" and want == "rej":
                    ctx.finding(f"C14/dclike/class_path-of-a-class-that-does-not-fit-the-declared-type-accepted/{arg}", {"class_path": cp, "parsed": short(cfg[arg], 200)})
                elif got == "rej" and want == "ok":
                    ctx.finding(f"C14/dclike/fitting-class_path-rejected/{arg}", {"class_path": cp})
                elif got == "ok":
                    try:
                        built = p.instantiate_classes(cfg)[arg]
                        built = built[0] if arg == "models" else built
                        if type(built).__name__ != cname or getattr(built, "size", None) != 7:
                            ctx.finding(f"C14/dclike/another-class-than-the-named-one-built/{arg}", {"class_path": cp, "built": type(built).__name__, "size": getattr(built, "size", None)})
                    except Exception as ex:  # noqa
                        ctx.finding(f"C14/dclike/instantiation-raises:{type(ex).__name__}/{arg}", {"class_path": cp, "error": fmt_exc(ex)})
                if only is None:
                    ctx.mark_nontrivial_enumerated()
                    if not ctx.end(raise_on_fail=False):
                        return


def list_replaced_family(ctx, only=None):
    """a List[Base] argument given twice: the later, plain assignment replaces the list as a whole (C04), so an item of the new list is
    built from its own spec alone - nothing of the item that stood at the same index before (class, init_args) carries over"""
    import warnings
    from typing import List

    from jsonargparse import ArgumentError, ArgumentParser

    warnings.simplefilter("ignore")
    old_items = [[{"class_path": M + "Child", "init_args": {"a": 6, "c": 0.25}}], [{"class_path": M + "Child", "init_args": {"a": 6}}, {"class_path": M + "Base", "init_args": {"b": "old"}}]]
    new_items = {"other-class-by-name": ["Base"], "same-class-by-name": ["Child"], "other-class-spec": [{"class_path": M + "GrandChild", "init_args": {"e": [1]}}],
                 "subclass-by-name": ["GrandChild"]}
    expect = {"Base": dict(a=1, b="b"), "Child": dict(a=1, b="b", c=0.5), "GrandChild": dict(a=1, b="b", c=0.5)}
    for oi, old in enumerate(old_items):
        for nname, new1 in new_items.items():
            for how in ("argv-argv", "cfg-argv", "cfg-cfg", "object-base"):
                case = {"kind": "listrepl", "old": oi, "new": nname, "how": how}
                if only is not None and case != only:
                    continue
                if only is None:
                    ctx.begin(case)
                ctx.cls("listrepl:" + how)
                new = list(new1) + ([{"class_path": M + "Child"}] if len(old) == 2 else [])  # same length as the old list
                p = ArgumentParser(exit_on_error=False)
                p.add_argument("--cfg", action="config")
                p.add_argument("--lst", type=List[FAM.Base], default=[])
                try:
                    if how == "argv-argv":
                        cfg = p.parse_args(["--lst", json.dumps(old), "--lst", json.dumps(new)])
                    elif how == "cfg-argv":
                        cfg = p.parse_args(["--cfg", json.dumps({"lst": old}), "--lst", json.dumps(new)])
                    elif how == "cfg-cfg":
                        cfg = p.parse_args(["--cfg", json.dumps({"lst": old}), "--cfg", json.dumps({"lst": new})])
                    else:
                        cfg = p.parse_object({"lst": copy.deepcopy(new)}, cfg_base=p.parse_object({"lst": copy.deepcopy(old)}))
                    del FAM.LOG[:]
                    built = p.instantiate_classes(cfg).lst
                except ArgumentError as ex:
                    ctx.finding(f"C14/list-replaced/valid-input-rejected/{how}", {"old": old, "new": new, "error": short(str(ex), 300)})
                    built = None
                except Exception as ex:  # noqa
                    ctx.cls(f"escape (C03): {type(ex).__name__}")
                    built = None
                if built is not None:
                    cname = new1[0] if isinstance(new1[0], str) else new1[0]["class_path"].rsplit(".", 1)[-1]
                    want = dict(expect[cname], **(new1[0].get("init_args", {}) if isinstance(new1[0], dict) else {}))
                    got = {k: getattr(built[0], k) for k in want} if len(built) == len(new) and type(built[0]).__name__ == cname else None
                    if got != want:
                        ctx.finding(f"C14/list-replaced/item-carries-over-what-stood-at-its-index-before/{how}",
                                    {"old": old, "new": new, "built": [type(b).__name__ for b in built], "got": got, "expected": want})
                if only is None:
                    ctx.mark_nontrivial_enumerated()
                    if not ctx.end(raise_on_fail=False):
                        return


def body(ctx):
    def f(case):
        ctx.begin(case)
        run_case(ctx, case)
        ctx.end()

    return f


def plan(tier):
    if tier == "quick":
        return [{"kind": "dclike"}] + [{"n": 600} for _ in range(16)]
    return [{"kind": "dclike"}] + [{"n": 5000} for _ in range(16)]


def run_shard(spec, ctx):
    if spec.get("kind") == "dclike":
        dataclass_like_family(ctx)
        return list_replaced_family(ctx)
    run_given(ctx, case_strategy(), body(ctx), spec["n"])


def health(tier, evaluations, nontrivial, classes):
    msgs = []
    for c in ["kind:" + k for k in ("valid", "wrongclass", "unknown_arg", "bad_type", "missing_req", "dict_kwargs", "factory", "class_change", "two_sources", "nested_two_sources")] + ["pos:holder.table", "pos:uni", "pos:lst"]:
        if classes.get(c, 0) < 15:
            msgs.append(f"class {c} nearly absent ({classes.get(c, 0)})")
    return msgs


def _resolve(cls):
    import importlib

    if cls in CP:
        mod, name = CP[cls].rsplit(".", 1)
        return getattr(importlib.import_module(mod), name)
    return getattr(FAM, cls)


def self_test():
    """the interpreter validates the model of the family"""
    sample = {"int": 1, "str": "s", "float": 1.5, "optint": None, "listint": [1]}
    for cls, params in MODEL.items():
        k = _resolve(cls)
        if not issubclass(k, FAM.Base):
            raise HarnessError(f"model: {cls} is not a subclass of Base")
        k(**{n: sample[t] for n, (t, _r) in params.items()})
        if cls != "Loose":
            try:
                k(**{n: sample[t] for n, (t, _r) in params.items()}, zq9=1)
                raise HarnessError(f"model: {cls} accepts a foreign parameter")
            except TypeError:
                pass
        for n, (t, req) in params.items():
            if req:
                try:
                    k(**{m: sample[tt] for m, (tt, _r) in params.items() if m != n})
                    raise HarnessError(f"model: {cls}.{n} is not required")
                except TypeError:
                    pass
    for x in ("Other", "Concrete", "Holder"):
        if issubclass(getattr(FAM, x), FAM.Base):
            raise HarnessError(f"model: {x} must not be a subclass of Base")
    assert isinstance(FAM.make_base(), FAM.Base) and isinstance(FAM.make_child(), FAM.Child) and not isinstance(FAM.make_other(), FAM.Base)

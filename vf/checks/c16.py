"""C16  Classes are instantiated in an order compatible with every link.

Domain   (i) complete enumeration of directed graphs (self-loops included) on <= 4 nodes in three edge-insertion orders (quick) and of
         all loop-free digraphs on 5 nodes in two insertion orders (thorough) through the graph component that orders instantiation;
         (ii) end to end: every acyclic link graph on 4 nodes (all 543 labelled DAGs) x every declaration order of the 4 components
         (class groups and class-typed arguments mixed; object, attribute and compute_fn sources; targets sharing a parent), plus all
         cyclic graphs on <= 3 nodes and a seeded sample on 4 nodes, through real parsers and instantiate_classes.
Oracle   Kahn's algorithm for acyclicity; order validity predicate (every edge's source before its target, a permutation of the nodes);
         the constructor call log: each class built exactly once, source before dependants, each linked parameter *is* the source object
         / its attribute / compute_fn(source); a cyclic link set raises ValueError when the closing link is added.
"""
import itertools
import json

from ..core import CaseFailed, HarnessError, derive_seed, fmt_exc, short

ID = "C16"
LEVEL = "exploration"
ENGINE = "enumeration"
TECHNIQUE = "complete enumeration of small link graphs (graph component and end to end through real parsers) against Kahn's algorithm and the constructor call log"
LEVEL_TEXT = ("Every digraph on up to 4 nodes (quick) / every loop-free digraph on 5 nodes (thorough) is pushed through the ordering component and "
              "checked with an independent validity predicate; every labelled DAG on 4 nodes is linked end to end in every declaration order and the "
              "constructor log is checked; three in ten of those cases also feed a List[...] argument with items of mixed classes. Exhaustive within those "
              "bounds; larger graphs are not explored.")
LEVEL_NOTE = ("Trusted: Kahn's algorithm and the order predicate (self-tested); the generated component classes log their constructor calls themselves. "
              "Part (i) addresses the library's internal graph class by name (the property is anchored there); if it is renamed, part (i) reports a "
              "harness error rather than a violation.")
RULE = ("case = (edge set, edge insertion order[, declaration order, source kinds]); all enumerated. non-trivial = the graph has >= 2 edges, or is "
        "cyclic, or a node is reachable by two paths. distinct by construction")
ASSUMPTIONS = [
    "a link whose source is the component itself passes the instance; 'comp.attr' passes the attribute of the instance; compute_fn is applied to it",
]
LOG = []
N = 4
NAMES = ["net", "net2", "net2b", "opt"]  # component keys that are prefixes of one another on purpose


def _mk(i):
    params = ", ".join(f"p{j}: Any = 'unset'" for j in range(N))  # (a default that differs from None: a None that was passed on purpose stays visible)
    src = (f"class K{i}:\n    def __init__(self, {params}):\n        LOG.append(('K{i}', dict({', '.join(f'p{j}=p{j}' for j in range(N))})))\n"
           + "".join(f"        self.p{j} = p{j}\n" for j in range(N)) + f"        self.tag = 'tag-of-K{i}'\n        self.nothing = None\n")
    from typing import Any

    ns = {"Any": Any, "LOG": LOG}
    exec(src, ns)  # noqa: S102
    c = ns[f"K{i}"]
    c.__module__ = __name__
    return c


K0, K1, K2, K3 = [_mk(i) for i in range(N)]
CLASSES = [K0, K1, K2, K3]


class WBase:
    """element class of the list sink that has none of the linked parameters"""

    def __init__(self, name: str = "w"):
        LOG.append((f"{type(self).__name__}:{name}", {}))
        self.name = name


class WLinked(WBase):
    def __init__(self, name: str = "lw", p0: "Any" = "unset", p1: "Any" = "unset", p2: "Any" = "unset", p3: "Any" = "unset"):
        self.name = name
        LOG.append((f"WLinked:{name}", {"p0": p0, "p1": p1, "p2": p2, "p3": p3}))


from typing import Any  # noqa: E402  (the annotations above are resolved lazily)


def compute(v):
    return ("computed", v)


# --- classes for the deep scenarios: targets and sources nested inside other components -----------------------------------------------
import dataclasses as _dc  # noqa: E402


class DLeaf:
    def __init__(self, x: Any = "unset"):
        LOG.append(("DLeaf", {"x": x}))
        self.x = x


class DMid:
    def __init__(self, c: DLeaf, p: Any = "unset"):
        LOG.append(("DMid", {"c": c, "p": p}))
        self.c, self.p, self.r = c, p, "r-of-mid"


class DTop:
    def __init__(self, child: DMid = None, p: Any = "unset"):
        LOG.append(("DTop", {"child": child, "p": p}))
        self.child, self.p = child, p


class DSrc:
    def __init__(self, p: Any = "unset"):
        LOG.append(("DSrc", {"p": p}))
        self.p, self.tag = p, "tag-of-src"


class DSink:
    def __init__(self, y: Any = "unset", t: int = 0):
        LOG.append(("DSink", {"y": y, "t": t}))
        self.y, self.t = y, t


class DEnc:
    def __init__(self):
        self.out = 16


class DModel:
    def __init__(self, k: int = 1):
        LOG.append(("DModel", {"k": k}))
        self.enc, self.out, self.w1 = DEnc(), "MODEL.out", 100


class DNoAttr:
    def __init__(self, k: int = 1):
        self.k = k


@_dc.dataclass
class DData:
    n: int = 3


class DTakesData:
    def __init__(self, d: DData, q: int = 0):
        LOG.append(("DTakesData", {"d": d}))
        self.d = d


SHIFT = []


def minus(a, b):
    SHIFT.append((a, b))
    return a - b


def kahn_cyclic(nodes, edges):
    indeg = {i: 0 for i in nodes}
    adj = {i: [] for i in nodes}
    for a, b in set(edges):
        indeg[b] += 1
        adj[a].append(b)
    q = [i for i in nodes if indeg[i] == 0]
    seen = 0
    while q:
        x = q.pop()
        seen += 1
        for y in adj[x]:
            indeg[y] -= 1
            if indeg[y] == 0:
                q.append(y)
    return seen != len(nodes)


def valid_order(order, nodes, edges):
    if sorted(order) != sorted(nodes):
        return "not a permutation of the nodes"
    pos = {n: i for i, n in enumerate(order)}
    bad = [(a, b) for a, b in edges if pos[a] > pos[b]]
    return f"edge source after target: {bad}" if bad else None


def two_paths(n, edges):
    adj = {i: [b for a, b in edges if a == i] for i in range(n)}

    def count(a, b, seen=()):
        if a == b:
            return 1
        return sum(count(x, b, seen + (a,)) for x in adj[a] if x not in seen)

    return any(count(a, b) >= 2 for a in range(n) for b in range(n) if a != b)


# ------------------------------------------------------------------------------------------------- (i) graph component
def graph_shard(ctx, n, loops, part, of, n_orders):
    try:
        from jsonargparse._link_arguments import DirectedGraph
    except ImportError as ex:
        raise HarnessError(f"graph component not found under its anchored name: {ex}")
    pairs = [(a, b) for a in range(n) for b in range(n) if loops or a != b]
    total = 1 << len(pairs)
    rot = derive_seed(getattr(ctx, "base_seed", 1), "c16") % max(1, len(pairs))
    for mask in range(part, total, of):
        edges = [pairs[i] for i in range(len(pairs)) if mask >> i & 1]
        if not edges:
            continue
        nodes = sorted({x for e in edges for x in e})
        cyc = kahn_cyclic(nodes, edges)
        orders = [edges, edges[::-1], edges[rot % len(edges):] + edges[:rot % len(edges)]][:n_orders]
        for oi, eorder in enumerate(orders):
            case = {"kind": "graph", "n": n, "edges": [list(e) for e in eorder]}
            ctx.begin(case)
            g = DirectedGraph()
            for a, b in eorder:
                g.add_edge(a, b)
            try:
                order = g.get_topological_order()
                err = None
            except ValueError as ex:
                order, err = None, ex
            except Exception as ex:  # noqa
                ctx.finding(f"C16/graph/unexpected-exception:{type(ex).__name__}", {"error": fmt_exc(ex)})
                order, err = None, ex
            if cyc != (err is not None) and not ctx._case_findings:
                ctx.finding(f"C16/graph/{'cyclic-graph-ordered' if cyc else 'acyclic-graph-reported-cyclic'}", {"edges": eorder, "order": order, "error": str(err)})
            elif not cyc and err is None:
                why = valid_order(order, nodes, edges)
                if why:
                    ctx.finding("C16/graph/invalid-topological-order", {"edges": eorder, "order": order, "why": why})
            if len(edges) >= 2 or cyc:
                ctx.mark_nontrivial_enumerated()
            ctx.cls("graph:cyclic" if cyc else "graph:acyclic")
            if not ctx.end(raise_on_fail=False):
                return
    ctx.extra["exhaustive"] = True


# ------------------------------------------------------------------------------------------------- (ii) end to end
def all_dags(n):
    pairs = [(a, b) for a in range(n) for b in range(n) if a != b]
    for mask in range(1 << len(pairs)):
        edges = [pairs[i] for i in range(len(pairs)) if mask >> i & 1]
        if edges and not kahn_cyclic(list(range(n)), edges):
            yield edges


def run_e2e(ctx, case):
    """case: n, edges (in link insertion order), decl (declaration order), kinds (per edge: obj|attr|fn), as_arg (components declared as class-typed arguments)"""
    import warnings

    from jsonargparse import ArgumentParser, lazy_instance

    warnings.simplefilter("ignore")
    n, edges, decl = case["n"], [tuple(e) for e in case["edges"]], case["decl"]
    kinds, as_arg = case["kinds"], set(case["as_arg"])
    p = ArgumentParser(exit_on_error=False)
    for i in decl:
        if i in as_arg:
            p.add_argument(f"--{NAMES[i]}", type=CLASSES[i], default=lazy_instance(CLASSES[i]))
        else:
            p.add_class_arguments(CLASSES[i], NAMES[i])
    sink = case.get("list_sink")  # {"sources": [node...], "items": ["WLinked" | "WBase", ...]}: a List[WBase] argument fed by instantiation links
    if sink:
        from typing import List

        p.add_argument("--workers", type=List[WBase], default=[])
    cyc = kahn_cyclic(list(range(n)), edges)
    err = None
    late = case.get("late", 0)  # this many links are added only after the parser has been used once (parse + instantiate)
    for li, ((a, b), kd) in enumerate(zip(edges, kinds)):
        if late and li == len(edges) - late and not cyc:
            try:
                del LOG[:]
                p.instantiate_classes(p.parse_args([]))
                ctx.cls("e2e:links-added-after-first-instantiation")
            except Exception as ex:  # noqa
                ctx.finding(f"C16/e2e/instantiation-raises:{type(ex).__name__}", {"error": fmt_exc(ex), "when": "before the late links", "edges": edges[:li]})
                return
        src = f"{NAMES[a]}.tag" if kd == "attr" else f"{NAMES[a]}.nothing" if kd == "attr_none" else NAMES[a]
        tgt = f"{NAMES[b]}.init_args.p{a}" if b in as_arg else f"{NAMES[b]}.p{a}"
        try:
            p.link_arguments(src, tgt, compute_fn=compute if kd == "fn" else None, apply_on="instantiate")
        except ValueError as ex:
            err = ex
            break
        except Exception as ex:  # noqa
            ctx.finding(f"C16/e2e/link_arguments-raises:{type(ex).__name__}", {"error": fmt_exc(ex), "link": [src, tgt]})
            return
    if sink and err is None:
        for a in sink["sources"]:
            try:
                p.link_arguments(NAMES[a], f"workers.init_args.p{a}", apply_on="instantiate")
            except Exception as ex:  # noqa
                ctx.finding(f"C16/e2e/link_arguments-raises:{type(ex).__name__}", {"error": fmt_exc(ex), "link": [NAMES[a], f"workers.init_args.p{a}"]})
                return
        ctx.cls("e2e:list-sink:" + ("mixed" if len(set(sink["items"])) > 1 else "homogeneous" if sink["items"] else "empty"))
    ctx.cls("e2e:cyclic" if cyc else "e2e:acyclic")
    if cyc != (err is not None):
        ctx.finding(f"C16/e2e/{'cyclic-link-set-accepted' if cyc else 'acyclic-link-set-rejected'}", {"edges": edges, "decl": decl, "error": str(err)})
        return
    if cyc:
        return
    del LOG[:]
    try:
        argv = []
        if sink:
            argv = ["--workers=" + json.dumps([{"class_path": f"{__name__}.{c}", "init_args": {"name": f"i{j}"}} for j, c in enumerate(sink["items"])])]
        cfg = p.parse_args(argv)
        init = p.instantiate_classes(cfg)
    except Exception as ex:  # noqa
        ctx.finding(f"C16/e2e/instantiation-raises:{type(ex).__name__}", {"error": fmt_exc(ex), "edges": edges, "decl": decl, "as_arg": sorted(as_arg), "list_sink": sink})
        return
    if sink:
        # every element built exactly once, after every source that feeds the list; elements that have the parameter hold the source object
        wlog = [(i, x) for i, x in enumerate(LOG) if x[0].startswith("W")]
        if [x[0] for _i, x in wlog] != [f"{c}:i{j}" for j, c in enumerate(sink["items"])]:
            ctx.finding("C16/e2e/list-sink/elements-not-constructed-exactly-once-in-order", {"constructed": [x[0] for x in LOG], "list_sink": sink})
            return
        kpos = {x[0]: i for i, x in enumerate(LOG) if x[0].startswith("K")}
        for i, (nm, kw) in wlog:
            for a in sink["sources"]:
                if kpos.get(f"K{a}", 10 ** 6) > i:
                    ctx.finding("C16/e2e/list-sink/source-constructed-after-list-element", {"constructed": [x[0] for x in LOG], "source": a})
                    return
                if nm.startswith("WLinked") and kw[f"p{a}"] is not init[NAMES[a]]:
                    ctx.finding("C16/e2e/list-sink/element-did-not-receive-the-source-object", {"element": nm, "param": f"p{a}", "value": short(kw[f"p{a}"], 100), "list_sink": sink})
                    return
            if nm.startswith("WLinked"):
                for a in range(n):
                    if a not in sink["sources"] and kw[f"p{a}"] != "unset":
                        ctx.finding("C16/e2e/list-sink/unlinked-parameter-changed", {"element": nm, "param": f"p{a}"})
                        return
        LOG[:] = [x for x in LOG if x[0].startswith("K")]
    names = [x for x, _ in LOG]
    want = sorted(f"K{i}" for i in range(n))
    if sorted(names) != want:
        ctx.finding("C16/e2e/class-not-constructed-exactly-once", {"constructed": names, "edges": edges, "decl": decl, "as_arg": sorted(as_arg)})
        return
    pos = {x: i for i, x in enumerate(names)}
    bad = [(a, b) for a, b in edges if pos[f"K{a}"] > pos[f"K{b}"]]
    if bad:
        ctx.finding("C16/e2e/source-constructed-after-dependant", {"bad_edges": bad, "constructed": names, "decl": decl, "as_arg": sorted(as_arg)})
        return
    kw = dict(LOG)
    for (a, b), kd in zip(edges, kinds):
        v = kw[f"K{b}"][f"p{a}"]
        src_obj = init[NAMES[a]]
        ok = ((v is src_obj) if kd == "obj" else (v == f"tag-of-K{a}") if kd == "attr" else (v is None) if kd == "attr_none"
              else (isinstance(v, tuple) and v[0] == "computed" and v[1] is src_obj))
        if not ok:
            ctx.finding(f"C16/e2e/linked-parameter-has-wrong-value/{kd}", {"edge": [a, b], "value": short(v, 100), "decl": decl, "as_arg": sorted(as_arg)})
            return
    # parameters that no link feeds keep their default
    for b in range(n):
        for a in range(n):
            if (a, b) not in edges and kw[f"K{b}"][f"p{a}"] != "unset":
                ctx.finding("C16/e2e/unlinked-parameter-changed", {"class": b, "param": a, "value": short(kw[f'K{b}'][f'p{a}'], 100)})
                return


def deep_family(ctx, only=None):
    """link sources and targets *inside* other components (a small fixed family, enumerated over declaration and link orders):
    S0 a --> b.init_args.c.init_args.x with b --> d.y (the enclosing component of the deep target is itself a source), S1 a cycle that
    closes through such nesting, S2 the parser after a rejected cyclic link, S3 a dataclass group fed whole into a dataclass-typed
    init arg, S4 several sources of which one attribute does not exist, S5 a source that is an attribute of an attribute."""
    import warnings

    from jsonargparse import ArgumentParser

    warnings.simplefilter("ignore")
    M = __name__ + "."
    mid_spec = json.dumps({"class_path": M + "DMid", "init_args": {"c": {"class_path": M + "DLeaf"}}})

    def s0(case):
        p = ArgumentParser(exit_on_error=False)
        for nm in case["decl"]:
            if nm == "a":
                p.add_class_arguments(DSrc, "a")
            elif nm == "b":
                p.add_argument("--b", type=DMid)
            else:
                p.add_class_arguments(DSink, "d")
        links = [("a", "b.init_args.c.init_args.x"), ("b", "d.y")]
        for src, tgt in (links if case["links"] == 0 else links[::-1]):
            p.link_arguments(src, tgt, apply_on="instantiate")
        del LOG[:]
        init = p.instantiate_classes(p.parse_args(["--b=" + mid_spec]))
        names = [x[0] for x in LOG]
        if sorted(names) != ["DLeaf", "DMid", "DSink", "DSrc"]:
            return "class-not-constructed-exactly-once", {"constructed": names}
        pos = {n: i for i, n in enumerate(names)}
        if not (pos["DSrc"] < pos["DLeaf"] < pos["DMid"] < pos["DSink"]):
            return "source-constructed-after-dependant", {"constructed": names}
        if init.b.c.x is not init.a or init.d.y is not init.b:
            return "linked-parameter-has-wrong-value", {"c.x": short(init.b.c.x, 80), "d.y": short(init.d.y, 80)}

    def s1(case):
        p = ArgumentParser(exit_on_error=False)
        p.add_argument("--root", type=DMid)
        p.add_class_arguments(DSink, "z")
        links = [("root.r", "z.y"), ("z", "root.init_args.c.init_args.x")]
        order = links if case["links"] == 0 else links[::-1]
        p.link_arguments(*order[0], apply_on="instantiate")
        try:
            p.link_arguments(*order[1], apply_on="instantiate")
        except ValueError:
            return None
        return "cyclic-link-set-accepted", {"links": order}

    def s2(case):
        p = ArgumentParser(exit_on_error=False)
        for nm in case["decl"]:
            p.add_class_arguments(DSrc, nm)
        p.link_arguments("a.tag", "b.p", apply_on="instantiate")
        try:
            p.link_arguments("b.tag", "a.p", apply_on="instantiate")
            return "cyclic-link-set-accepted", {}
        except ValueError:
            pass
        try:
            p.link_arguments("b.tag", "d.p", apply_on="instantiate")
            init = p.instantiate_classes(p.parse_args([]))
        except Exception as ex:  # noqa
            return "parser-unusable-after-a-rejected-cyclic-link", {"error": fmt_exc(ex)}
        if init.d.p != "tag-of-src" or init.b.p != "tag-of-src" or init.a.p != "unset":
            return "linked-parameter-has-wrong-value", {"a.p": init.a.p, "b.p": init.b.p, "d.p": init.d.p}

    def s3(case):
        p = ArgumentParser(exit_on_error=False)
        for nm in case["decl"]:
            if nm == "a":
                p.add_class_arguments(DData, "a")
            elif nm == "b":
                p.add_argument("--b", type=DTakesData)
            else:
                p.add_class_arguments(DSrc, "d")
        p.link_arguments("a", "b.init_args.d", apply_on="instantiate")
        del LOG[:]
        init = p.instantiate_classes(p.parse_args(["--b=" + M + "DTakesData", "--a.n=7"]))
        if not isinstance(init.a, DData) or init.b.d is not init.a or init.a.n != 7:
            return "linked-parameter-has-wrong-value", {"b.d": short(init.b.d, 80), "a": short(init.a, 80)}
        if [x[0] for x in LOG].count("DTakesData") != 1:
            return "class-not-constructed-exactly-once", {"constructed": [x[0] for x in LOG]}

    def s4(case):
        p = ArgumentParser(exit_on_error=False)
        for nm in case["decl"]:
            if nm == "a":
                p.add_argument("--a", type=Any if False else DNoAttr)
            elif nm == "b":
                p.add_argument("--b", type=DModel)
            else:
                p.add_class_arguments(DSink, "d")
        srcs = ("a.w2", "b.w1") if case["links"] == 0 else ("b.w1", "a.w2")  # DNoAttr objects have no attribute w2
        p.link_arguments(srcs, "d.t", compute_fn=minus, apply_on="instantiate")
        del SHIFT[:]
        init = p.instantiate_classes(p.parse_args(["--a=" + M + "DNoAttr", "--b=" + M + "DModel"]))
        if SHIFT or init.d.t != 0:
            return "compute_fn-called-although-a-source-attribute-is-missing", {"calls": list(SHIFT), "d.t": init.d.t}

    def s5(case):
        p = ArgumentParser(exit_on_error=False)
        for nm in case["decl"]:
            if nm == "a":
                p.add_argument("--a", type=DModel)
            elif nm == "b":
                p.add_class_arguments(DSrc, "b")
            else:
                p.add_class_arguments(DSink, "d")
        p.link_arguments("a.enc.out", "d.y", apply_on="instantiate")
        p.link_arguments("a.out", "b.p", apply_on="instantiate")
        init = p.instantiate_classes(p.parse_args(["--a=" + M + "DModel"]))
        if init.d.y != 16 or init.b.p != "MODEL.out":
            return "linked-parameter-has-wrong-value", {"d.y": short(init.d.y, 40), "b.p": short(init.b.p, 40)}

    def s6(case):
        # a target three levels below a class group whose intermediate level is not itself a target, next to a link to the group itself
        p = ArgumentParser(exit_on_error=False)
        for nm in case["decl"]:
            if nm == "a":
                p.add_class_arguments(DSrc, "a")
            elif nm == "b":
                p.add_class_arguments(DTop, "b")
            else:
                p.add_class_arguments(DSink, "d")
        links = [("a", "b.child.init_args.c.init_args.x"), ("d", "b.p")]
        for src, tgt in (links if case["links"] == 0 else links[::-1]):
            p.link_arguments(src, tgt, apply_on="instantiate")
        del LOG[:]
        init = p.instantiate_classes(p.parse_args(["--b.child=" + mid_spec]))
        names = [x[0] for x in LOG]
        if sorted(names) != ["DLeaf", "DMid", "DSink", "DSrc", "DTop"]:
            return "class-not-constructed-exactly-once", {"constructed": names}
        pos = {n: i for i, n in enumerate(names)}
        if not (pos["DSrc"] < pos["DLeaf"] < pos["DMid"] < pos["DTop"] and pos["DSink"] < pos["DTop"]):
            return "source-constructed-after-dependant", {"constructed": names}
        if init.b.child.c.x is not init.a or init.b.p is not init.d:
            return "linked-parameter-has-wrong-value", {"c.x": short(init.b.child.c.x, 80), "b.p": short(init.b.p, 80)}

    def s7(case):
        # the deep target, its enclosing component (b.child) and the group (b) are all link targets: every enclosing level needs its edge
        base = [("a", "b.child.init_args.c.init_args.x"), ("d", "b.p"), ("d", "b.child.init_args.p")]
        for order in itertools.permutations(range(3)):
            if (order[0] == 0) != (case["links"] == 0):
                continue  # links=0: the deep link is declared first; links=1: another one is
            p = ArgumentParser(exit_on_error=False)
            for nm in case["decl"]:
                if nm == "a":
                    p.add_class_arguments(DSrc, "a")
                elif nm == "b":
                    p.add_class_arguments(DTop, "b")
                else:
                    p.add_class_arguments(DSink, "d")
            for i in order:
                p.link_arguments(*base[i], apply_on="instantiate")
            del LOG[:]
            init = p.instantiate_classes(p.parse_args(["--b.child=" + mid_spec]))
            names = [x[0] for x in LOG]
            if sorted(names) != ["DLeaf", "DMid", "DSink", "DSrc", "DTop"]:
                return "class-not-constructed-exactly-once", {"constructed": names, "link_order": list(order)}
            pos = {n: i for i, n in enumerate(names)}
            if not (pos["DSrc"] < pos["DLeaf"] < pos["DMid"] < pos["DTop"] and pos["DSink"] < pos["DMid"]):
                return "source-constructed-after-dependant", {"constructed": names, "link_order": list(order)}
            if init.b.child.c.x is not init.a or init.b.p is not init.d or init.b.child.p is not init.d:
                return "linked-parameter-has-wrong-value", {"c.x": short(init.b.child.c.x, 60), "b.p": short(init.b.p, 60), "child.p": short(init.b.child.p, 60), "link_order": list(order)}
        # a cycle that runs through the middle component: b.child -> a -> b.child...c (inside b.child)
        p = ArgumentParser(exit_on_error=False)
        for nm in case["decl"]:
            if nm == "a":
                p.add_class_arguments(DSrc, "a")
            elif nm == "b":
                p.add_class_arguments(DTop, "b")
            else:
                p.add_class_arguments(DSink, "d")
        first = [("d", "b.p"), ("b.child.r", "a.p")]
        for src, tgt in (first if case["links"] == 0 else first[::-1]):
            p.link_arguments(src, tgt, apply_on="instantiate")
        try:
            p.link_arguments("a", "b.child.init_args.c.init_args.x", apply_on="instantiate")
        except ValueError:
            return None
        return "cycle-through-a-nested-component-accepted", {}

    def s8(case):
        # a chain over class-typed *arguments* only, instantiated with instantiate_groups=False (links=1) or with the default (links=0)
        p = ArgumentParser(exit_on_error=False)
        for nm in case["decl"]:
            if nm == "a":
                p.add_argument("--a", type=DSrc, default={"class_path": M + "DSrc"})
            elif nm == "b":
                p.add_argument("--b", type=DSink, default={"class_path": M + "DSink"})
            else:
                p.add_argument("--d", type=DSink, default={"class_path": M + "DSink"})
        p.link_arguments("b", "d.init_args.y", apply_on="instantiate")
        p.link_arguments("a", "b.init_args.y", apply_on="instantiate")
        del LOG[:]
        cfg = p.parse_args([])
        init = p.instantiate_classes(cfg, instantiate_groups=False) if case["links"] == 1 else p.instantiate_classes(cfg)
        names = [x[0] for x in LOG]
        if sorted(names) != ["DSink", "DSink", "DSrc"]:
            return "class-not-constructed-exactly-once", {"constructed": names}
        if names[0] != "DSrc" or init.b.y is not init.a or init.d.y is not init.b:
            return "source-constructed-after-dependant" if names[0] != "DSrc" else "linked-parameter-has-wrong-value", {"constructed": names, "b.y": short(init.b.y, 60), "d.y": short(init.d.y, 60)}

    scen = {"S0": s0, "S1": s1, "S2": s2, "S3": s3, "S4": s4, "S5": s5, "S6": s6, "S7": s7, "S8": s8}
    for name, fn in scen.items():
        for decl in itertools.permutations(["a", "b", "d"]):
            for links in (0, 1):
                case = {"kind": "deep", "scenario": name, "decl": list(decl), "links": links}
                if only is not None and case != only:
                    continue
                if only is None:
                    ctx.begin(case)
                ctx.cls("deep:" + name)
                try:
                    r = fn(case)
                except Exception as ex:  # noqa
                    r = ("raises:" + type(ex).__name__, {"error": fmt_exc(ex)})
                if r:
                    ctx.finding(f"C16/deep/{name}/{r[0]}", dict(r[1], decl=list(decl), links=links))
                if only is None:
                    ctx.mark_nontrivial_enumerated()
                    if not ctx.end(raise_on_fail=False):
                        return


def e2e_shard(ctx, part, of, n_cyclic):
    import random  # noqa: the seeded choice of link insertion order / source kinds; a pure function of VERIF_SEED and the case index

    dags = list(all_dags(N))
    perms = list(itertools.permutations(range(N)))
    idx = 0
    for gi, edges in enumerate(dags):
        for pi, decl in enumerate(perms):
            idx += 1
            if idx % of != part:
                continue
            rnd = random.Random(derive_seed(getattr(ctx, "base_seed", 1), "e2e", gi, pi))
            eorder = list(edges)
            rnd.shuffle(eorder)
            kinds = [rnd.choice(["obj", "obj", "attr", "fn", "attr_none"]) for _ in eorder]
            as_arg = [i for i in range(N) if rnd.random() < 0.3]
            case = {"kind": "e2e", "n": N, "edges": [list(e) for e in eorder], "decl": list(decl), "kinds": kinds, "as_arg": as_arg,
                    "late": rnd.choice([0, 0, 0, 1, 2]) if len(eorder) >= 2 else 0}
            if rnd.random() < 0.3:
                case["list_sink"] = {"sources": sorted(rnd.sample(range(N), rnd.randint(1, 2))),
                                     "items": rnd.choice([["WLinked"], ["WLinked", "WLinked"], ["WLinked", "WBase"], ["WBase", "WLinked"], ["WBase", "WLinked", "WLinked"], ["WBase"], []])}
            ctx.begin(case)
            run_e2e(ctx, case)
            if len(edges) >= 2:
                ctx.mark_nontrivial_enumerated()
            if two_paths(N, edges):
                ctx.cls("e2e:node-reachable-by-two-paths")
            if not ctx.end(raise_on_fail=False):
                return
    # cyclic link sets: all on <= 3 nodes, a seeded sample on 4 nodes (only shard 0 does the small ones)
    pairs = [(a, b) for a in range(N) for b in range(N) if a != b]
    rnd = random.Random(derive_seed(getattr(ctx, "base_seed", 1), "cyc", part))
    masks = []
    if part == 0:
        small = [(a, b) for a in range(3) for b in range(3) if a != b]
        for mask in range(1, 1 << len(small)):
            masks.append([small[i] for i in range(len(small)) if mask >> i & 1])
    for _ in range(n_cyclic):
        mask = rnd.randrange(1, 1 << len(pairs))
        masks.append([pairs[i] for i in range(len(pairs)) if mask >> i & 1])
    for edges in masks:
        if not kahn_cyclic(list(range(N)), edges):
            continue
        eorder = list(edges)
        rnd.shuffle(eorder)
        decl = list(range(N))
        rnd.shuffle(decl)
        case = {"kind": "e2e", "n": N, "edges": [list(e) for e in eorder], "decl": decl, "kinds": [rnd.choice(["obj", "attr"]) for _ in eorder], "as_arg": [i for i in range(N) if rnd.random() < 0.3]}
        ctx.begin(case)
        run_e2e(ctx, case)
        ctx.mark_nontrivial_enumerated()
        if not ctx.end(raise_on_fail=False):
            return
    ctx.extra["exhaustive"] = True
    ctx.extra["dags_on_4_nodes"] = len(dags)


def run_case(ctx, case):
    if case["kind"] == "deep":
        deep_family(ctx, only=case)
        ctx.mark_nontrivial()
        return
    if case["kind"] == "e2e":
        run_e2e(ctx, case)
        ctx.mark_nontrivial()
        return
    from jsonargparse._link_arguments import DirectedGraph

    edges = [tuple(e) for e in case["edges"]]
    nodes = sorted({x for e in edges for x in e})
    g = DirectedGraph()
    for a, b in edges:
        g.add_edge(a, b)
    cyc = kahn_cyclic(nodes, edges)
    try:
        order, err = g.get_topological_order(), None
    except ValueError as ex:
        order, err = None, ex
    if cyc != (err is not None):
        ctx.finding(f"C16/graph/{'cyclic-graph-ordered' if cyc else 'acyclic-graph-reported-cyclic'}", {"edges": edges, "order": order, "error": str(err)})
    elif not cyc and valid_order(order, nodes, edges):
        ctx.finding("C16/graph/invalid-topological-order", {"edges": edges, "order": order})
    ctx.mark_nontrivial()


def plan(tier):
    if tier == "quick":
        return ([{"kind": "graph", "n": 2, "loops": True, "part": 0, "of": 1, "orders": 3}, {"kind": "graph", "n": 3, "loops": True, "part": 0, "of": 1, "orders": 3}]
                + [{"kind": "graph", "n": 4, "loops": True, "part": i, "of": 6, "orders": 3} for i in range(6)]
                + [{"kind": "deep"}] + [{"kind": "e2e", "part": i, "of": 16, "cyclic": 60} for i in range(16)])
    return ([{"kind": "graph", "n": 3, "loops": True, "part": 0, "of": 1, "orders": 3}]
            + [{"kind": "graph", "n": 4, "loops": True, "part": i, "of": 4, "orders": 3} for i in range(4)]
            + [{"kind": "graph", "n": 5, "loops": False, "part": i, "of": 32, "orders": 2} for i in range(32)]
            + [{"kind": "deep"}] + [{"kind": "e2e", "part": i, "of": 16, "cyclic": 800} for i in range(16)])


def run_shard(spec, ctx):
    if spec["kind"] == "deep":
        deep_family(ctx)
        if len(ctx.samples) < 1:
            ctx.samples.append({"kind": "deep", "scenario": "S0", "decl": ["a", "b", "d"], "links": 0})
    elif spec["kind"] == "graph":
        graph_shard(ctx, spec["n"], spec["loops"], spec["part"], spec["of"], spec["orders"])
        if len(ctx.samples) < 1:
            ctx.samples.append({"kind": "graph", "n": spec["n"], "edges": [[0, 1], [1, 2], [0, 2]]})
    else:
        e2e_shard(ctx, spec["part"], spec["of"], spec["cyclic"])
        if len(ctx.samples) < 1:
            ctx.samples.append({"kind": "e2e", "n": 4, "edges": [[0, 1], [1, 2], [0, 2]], "decl": [2, 1, 0, 3], "kinds": ["obj", "attr", "fn"], "as_arg": [1]})


def health(tier, evaluations, nontrivial, classes):
    msgs = []
    for c in ("graph:cyclic", "graph:acyclic", "e2e:cyclic", "e2e:acyclic", "e2e:node-reachable-by-two-paths"):
        if classes.get(c, 0) < 50:
            msgs.append(f"class {c} nearly absent ({classes.get(c, 0)})")
    return msgs


def self_test():
    assert kahn_cyclic([0, 1, 2], [(0, 1), (1, 2), (2, 0)]) and not kahn_cyclic([0, 1, 2], [(0, 1), (1, 2), (0, 2)]) and kahn_cyclic([0], [(0, 0)])
    assert valid_order([0, 1, 2], [0, 1, 2], [(0, 1), (1, 2)]) is None and valid_order([1, 0, 2], [0, 1, 2], [(0, 1)]) and valid_order([0, 1], [0, 1, 2], [])
    assert len(list(all_dags(3))) == 24 and two_paths(3, [(0, 1), (1, 2), (0, 2)]) and not two_paths(3, [(0, 1), (1, 2)])

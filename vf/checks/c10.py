"""C10  Parse results are fixed points: re-parsing or validating changes nothing.

Domain   same generated (parser, accepted configuration) pairs as C01 (object and argv channel).
Oracle   for each accepted cfg: validate(cfg) does not raise; typed_eq(parse_object(copy of cfg), cfg);
         dump(parse_string(dump(cfg))) == dump(cfg) byte for byte per format; a dump that raises or does not re-parse breaks the
         clause as well (a re-parse that differs from cfg while the second dump is identical is C01's subject and only counted).
"""
import copy

from ..core import fmt_exc, innermost_pkg_frame, run_given, with_spellings, short
from ..gen import parsers as P
from ..gen import types as G
from . import _rt

ID = "C10"
LEVEL = "exploration"
ENGINE = "hypothesis"
TECHNIQUE = "property-based idempotence testing (validate / parse_object / dump-parse-dump fixed points) over generated typed parsers"
LEVEL_TEXT = ("Thousands of generated (parser, accepted configuration) pairs per run, from the object and the command line channel; "
              "each result must validate, re-parse as an object to a typed-equal configuration and dump to byte-identical text after a "
              "dump/parse cycle (a dump that raises or does not re-parse fails the clause as well). Two cases in ten come from the argument-kinds "
              "family, one from values loaded from files. Exploration bounded by the grammars.")
LEVEL_NOTE = ("Trusted: typed_eq in vf/gen/types.py. Root causes F2, F3 and F23 (recorded for C01) also break the dump cycle and are "
              "recognised here by the same narrow input-anchored rules, under C10 signatures of their own.")
RULE = ("case = (parser recipe, given values, channel). non-trivial = the configuration contains a converted leaf (enum member, tuple/set, "
        "registered or restricted type, subclass spec with filled defaults, dataclass) and at least one given value. distinct = hash of the case")
ASSUMPTIONS = [
    "the config bookkeeping key (cfg) and meta keys are removed before comparing",
    "scalar subclasses created by restricted types compare equal to their base value (type identity of PositiveInt vs int is not part of the statement)",
]


KNOWN_SIG = {"F2": "C10/F2/dump-of-str-with-char-that-PyYAML-does-not-read-back-does-not-cycle",
             "F3": "C10/F3/non-finite-float-json-dump-does-not-re-parse",
             "F23": "C10/F23/yaml-null-lookalike-str-becomes-None-when-parsed-again"}


def _known(case, fmt, a, b):
    """the recorded root causes that also break the dump cycle, recognised by the same narrow, input-anchored rules as in C01"""
    from .c01 import classify

    s = classify(case, fmt, "dump", "", a, b)
    return KNOWN_SIG.get(s.split("/")[1]) if s else None


def run_case(ctx, case):
    from jsonargparse import ArgumentError

    if case.get("kind") == "file":
        return run_file_case(ctx, case)
    if case.get("kind") == "kinds":
        from . import _kinds

        return _kinds.run(ctx, case, "C10")

    p, cfgs = _rt.accepted_configs(ctx, case)
    kinds = set().union(*[G.kinds_in(s) for s in P.all_shapes(case["recipe"]).values()])
    for k in kinds:
        ctx.cls("kind:" + k)
    for channel, cfg, argv in cfgs:
        ctx.cls("accepted:" + channel)
        base = _rt.clean(cfg)
        if case["values"] and kinds & ({"enum", "posint", "nnfloat", "unit", "rstr", "dictint", "dc", "cls", "tuple", "tuplevar", "set"} | set(G.REGISTERED_LEAVES)):
            ctx.mark_nontrivial((case["recipe"], case["values"], channel))
        # 1. validate
        try:
            p.validate(copy.deepcopy(cfg))
        except Exception as ex:  # noqa
            ctx.finding(f"C10/validate-rejects-parse-result/{type(ex).__name__}", {"channel": channel, "error": fmt_exc(ex), "cfg": repr(base)[:300]})
        # 2. re-parse as object
        try:
            again = p.parse_object(copy.deepcopy(cfg))
        except Exception as ex:  # noqa
            ctx.finding(f"C10/parse_object-rejects-parse-result/{type(ex).__name__}", {"channel": channel, "error": fmt_exc(ex), "cfg": repr(base)[:300]})
        else:
            for path, got, want in G.diff(_rt.clean(again), base, limit=4):
                if isinstance(want, str) and want in ("null", "Null", "NULL", "~") and got is None:
                    ctx.finding("C10/F23/yaml-null-lookalike-str-becomes-None-when-parsed-again", {"path": path, "first": want, "cfg": repr(base)[:300]})
                    continue
                ctx.finding(f"C10/parse_object-changes-parse-result/{type(want).__name__}->{type(got).__name__}",
                            {"channel": channel, "path": path, "first": repr(want)[:200], "second": repr(got)[:200]})
        # 3. dump -> parse -> dump
        for fmt in _rt.FORMATS:
            try:
                d1 = p.dump(copy.deepcopy(cfg), format=fmt, skip_none=False)
            except Exception as ex:  # noqa
                ctx.finding(_known(case, fmt, base, None) or f"C10/dump-raises/{fmt}/{type(ex).__name__}@{innermost_pkg_frame(ex)}", {"error": fmt_exc(ex), "cfg": repr(base)[:300]})
                continue
            try:
                back = p.parse_string(d1)
            except Exception as ex:  # noqa
                ctx.finding(_known(case, fmt, base, None) or f"C10/dump-does-not-re-parse/{fmt}/{type(ex).__name__}", {"error": fmt_exc(ex), "first_dump": short(d1, 300)})
                continue
            try:
                d2 = p.dump(copy.deepcopy(back), format=fmt, skip_none=False)
            except Exception as ex:  # noqa
                ctx.finding(f"C10/second-dump-raises/{fmt}/{type(ex).__name__}", {"error": fmt_exc(ex), "first_dump": short(d1, 300)})
                continue
            if d1 != d2:
                # the recorded root causes (F2, F23: the first re-parse reads a string back as something else) are recognised by
                # what changed between cfg and its re-parse; anything else is a new instability
                diffs = G.diff(_rt.clean(back), base, limit=6)
                sigs = {_known(case, fmt, want, got) for _path, got, want in diffs}
                if diffs and None not in sigs:
                    for sg in sorted(sigs):
                        ctx.finding(sg, {"format": fmt, "first": short(d1, 300), "second": short(d2, 300)})
                else:
                    ctx.finding(f"C10/dump-not-stable/{fmt}", {"first": short(d1, 400), "second": short(d2, 400)})
            elif G.diff(_rt.clean(back), base, limit=1):
                ctx.cls("dump-cycle-stable-although-re-parse-differs (C01's subject)")
            ctx.cls("dump-cycle-compared")
    ctx.sample()


def run_file_case(ctx, case):
    """values that were loaded from files carry meta data (__path__): re-parsing the result as an object, from another working
    directory, must give an equal configuration *including* that meta data"""
    import os
    from typing import Dict, List

    from jsonargparse import ArgumentParser

    import dataclasses

    @dataclasses.dataclass
    class Grp:
        a: int = 1
        b: str = "x"

    with _rt.scratch_dir() as d:
        cwd = os.getcwd()
        try:
            os.chdir(d)
            os.mkdir("sub")
            with open("sub/w.yaml", "w") as f:
                f.write("\n".join(f"{k}: {v}" for k, v in case["dict"].items()) + "\n" if case["dict"] else "{}\n")
            with open("sub/g.yaml", "w") as f:
                f.write(f"a: {case['a']}\nb: zz\n")
            with open("sub/l.txt", "w") as f:
                f.write("\n".join(str(i) for i in case["list"]) + "\n")
            with open("main.yaml", "w") as f:
                f.write("name: fromcfg\n" + ("weights: sub/w.yaml\n" if case["nested"] else ""))
            p = ArgumentParser(exit_on_error=False)
            p.add_argument("--cfg", action="config")
            p.add_argument("--name", type=str, default="n")
            p.add_argument("--weights", type=Dict[str, int], enable_path=True, default={})
            p.add_argument("--nums", type=List[int], enable_path=True, default=[])
            p.add_argument("--g", type=Grp, default=Grp())
            argv = []
            if case["use_cfg"]:
                argv += ["--cfg", "main.yaml"]
            if not case["nested"] or not case["use_cfg"]:
                argv += ["--weights", "sub/w.yaml"]
            if case["use_list"]:
                argv += ["--nums", "sub/l.txt"]
            if case["use_group"]:
                argv += ["--g", "sub/g.yaml"]
            try:
                cfg = p.parse_args(argv)
            except Exception as ex:  # noqa
                ctx.cls("file-case-rejected:" + type(ex).__name__)
                return
            ctx.cls("file-case-accepted")
            ctx.mark_nontrivial()
            os.chdir("sub")  # a later step of a program, somewhere else
            try:
                p.validate(cfg.clone())
                again = p.parse_object(cfg.clone())
            except Exception as ex:  # noqa
                ctx.finding(f"C10/file-loaded/validate-or-parse_object-rejects-parse-result/{type(ex).__name__}", {"argv": argv, "error": fmt_exc(ex)})
                return
            for path, got, want in G.diff(again, cfg, limit=4):
                ctx.finding("C10/file-loaded/parse_object-changes-parse-result" + ("/meta" if "__" in path else ""),
                            {"argv": argv, "path": path, "first": repr(want)[:200], "second": repr(got)[:200]})
        finally:
            os.chdir(cwd)


def file_case_strategy():
    from hypothesis import strategies as st

    return st.fixed_dictionaries({
        "kind": st.just("file"), "dict": st.dictionaries(st.sampled_from(["a", "b", "items"]), st.integers(0, 9), max_size=3),
        "list": st.lists(st.integers(0, 9), max_size=3), "a": st.integers(0, 9), "nested": st.booleans(), "use_cfg": st.booleans(),
        "use_list": st.booleans(), "use_group": st.booleans()})


def body(ctx):
    def f(case):
        ctx.begin(case)
        run_case(ctx, case)
        ctx.end()

    return f


def plan(tier):
    if tier == "quick":
        return [{"n": 320, "depth": 2} for _ in range(16)]
    return [{"n": 4000, "depth": 2 if i % 2 else 3} for i in range(16)]


def run_shard(spec, ctx):
    from hypothesis import strategies as st

    from . import _kinds

    main = _rt.case_strategy(spec["depth"])
    run_given(ctx, with_spellings(st.integers(0, 9).flatmap(lambda i: file_case_strategy() if i == 0 else _kinds.case_strategy() if i <= 2 else main)), body(ctx), spec["n"])


def health(tier, evaluations, nontrivial, classes):
    msgs = []
    if classes.get("dump-cycle-compared", 0) < evaluations:
        msgs.append(f"too few dump cycles compared: {classes.get('dump-cycle-compared', 0)} for {evaluations} cases")
    for c in ("accepted:argv", "kind:set", "kind:cls", "kind:dc", "kind:enum", "file-case-accepted"):
        if classes.get(c, 0) < 10:
            msgs.append(f"class {c} nearly absent")
    return msgs


def self_test():
    assert G.diff({1, 2}, {2, 1}) == [] and G.diff((1,), [1])

"""C17  Exactly one subcommand is selected and only its settings survive.

Domain   generated subcommand trees (depth 1-4, 1-3 subcommands per level, required or optional, global options and a config argument at
         every level; sub-parsers attached in level order) x inputs that select, omit, or give settings for several subcommands through
         the command line (path of names, --cfg string before it, sub-level --cfg), config text, object, and the environment
         (PREFIX_SUB / PREFIX_A__O1 variables, with and without a command line path).
Oracle   the statement's own selection rule as a 25-line reference model: the name on the command line, else the explicit key in the
         config / environment, else the first subcommand with settings (an empty section is not a setting), else error if required /
         None if optional; the result holds, at every level, exactly {options, subcommand key, chosen name}; the chosen section is
         fold(defaults, environment, given); no key of any other subcommand anywhere.
"""
import copy
import json
import os

from hypothesis import strategies as st

from ..core import fmt_exc, innermost_pkg_frame, run_given, short
from ..gen import types as G
from . import _rt

ID = "C17"
LEVEL = "exploration"
ENGINE = "hypothesis"
TECHNIQUE = "property-based testing against a reference model of subcommand selection over generated subcommand trees and multi-channel inputs"
LEVEL_TEXT = ("Thousands of generated (tree, input) pairs per run across command line, config text, object and environment; the whole result "
              "tree must equal the model's (chosen names, surviving sections, folded values) or both must reject. Exploration bounded by tree size.")
LEVEL_NOTE = ("Trusted: the reference model (self-tested on hand-computed cases). 'Settings were given' means the section has at least one leaf. "
              "Environment names use PREFIX_SUB__OPT (double underscore), as the help output states. Known finding F22 is recorded by a narrow signature.")
RULE = ("case = (subcommand tree, settings, command line path, channel). non-trivial = settings are given for at least two sibling subcommands, "
        "or the selection comes from an explicit key / environment, or the tree is at least two levels deep with a choice at both. distinct = hash of the case")
ASSUMPTIONS = [
    "an empty section (a: {}) is not 'settings given'",
    "settings in the environment do not select a subcommand by themselves (only an explicit PREFIX_SUB variable does)",
]
NAMES = ["a", "b", "c"]
OPTS = ["o1", "o2"]


def node(depth):
    opts = st.dictionaries(st.sampled_from(OPTS), st.integers(0, 9), max_size=2)
    if depth == 0:
        return st.fixed_dictionaries({"opts": opts, "subs": st.just({}), "required": st.just(True)})
    return st.fixed_dictionaries({"opts": opts, "required": st.booleans(),
                                  "subs": st.one_of(st.just({}), st.dictionaries(st.sampled_from(NAMES), st.deferred(lambda: node(depth - 1)), min_size=1, max_size=3 if depth < 2 else 2))})


@G._memo
def case_strategy():
    def with_inputs(tree):
        def settings_for(draw, n):
            d = {}
            for o in n["opts"]:
                if draw(st.booleans()):
                    d[o] = draw(st.integers(10, 19))
            if n["subs"]:
                for name, ch in n["subs"].items():
                    if draw(st.integers(0, 2)) > 0:
                        d[name] = settings_for(draw, ch)
                if draw(st.integers(0, 3)) == 0:
                    d["sub"] = draw(st.sampled_from(sorted(n["subs"])))
            return d

        def build(draw):
            cfg = settings_for(draw, tree)
            envs = settings_for(draw, tree) if draw(st.integers(0, 2)) == 0 else {}
            path, n = [], tree
            while n["subs"] and draw(st.booleans()):
                nm = draw(st.sampled_from(sorted(n["subs"])))
                path.append(nm)
                n = n["subs"][nm]
            chan = draw(st.sampled_from(["argv", "argv", "obj", "str", "env", "env+argv", "argv-subcfg"]))
            return {"tree": tree, "cfg": cfg, "env": envs if chan in ("env", "env+argv") else {}, "path": path if chan in ("argv", "env+argv", "argv-subcfg") else [], "channel": chan}

        return st.composite(lambda draw: build(draw))()

    top = st.fixed_dictionaries({"opts": st.dictionaries(st.sampled_from(OPTS), st.integers(0, 9), max_size=2), "required": st.booleans(),
                                 # (two levels below the root in three cases out of four, three levels in the fourth)
                                 "subs": st.integers(0, 3).flatmap(lambda i: st.dictionaries(st.sampled_from(NAMES), node(1 if i else 2), min_size=1, max_size=3 if i else 2))})
    return top.flatmap(with_inputs)


def build(tree, default_env=False, late=False):
    """late: environment support is switched on through the root's property after the whole tree has been assembled"""
    from jsonargparse import ArgumentParser

    def mk(n, top):
        p = ArgumentParser(exit_on_error=False, prog="app", env_prefix="APP", default_env=default_env and not late) if top else ArgumentParser(exit_on_error=False)
        p.add_argument("--cfg", action="config")
        for o, d in n["opts"].items():
            p.add_argument("--" + o, type=int, default=d)
        # every parser also has an option three names deep that no input ever sets (nested keys below a subcommand are keys too);
        # it is left out of the comparison
        p.add_argument("--g.h.k", type=int, default=7)
        return p

    root = mk(tree, True)
    level = [(root, tree)]
    while level:  # breadth first: levels must be attached in level order
        nxt = []
        for p, n in level:
            if n["subs"]:
                sc = p.add_subcommands(required=n["required"], dest="sub")
                for name, ch in n["subs"].items():
                    cp = mk(ch, False)
                    sc.add_subcommand(name, cp)
                    nxt.append((cp, ch))
        level = nxt
    if default_env and late:
        root.default_env = True
    return root


# ------------------------------------------------------------------------------------------------- model
def hasleaf(d):
    return any((hasleaf(v) if isinstance(v, dict) else True) for v in d.values())


def model(n, cfg, env, argv_path):
    """expected result dict or 'ERR'"""
    cfg = cfg if isinstance(cfg, dict) else {}
    env = env if isinstance(env, dict) else {}
    out = {}
    for o, dflt in n["opts"].items():
        out[o] = cfg.get(o, env.get(o, dflt))
    if not n["subs"]:
        return out
    chosen = None
    if argv_path:
        chosen = argv_path[0]
    elif cfg.get("sub") is not None:
        chosen = cfg["sub"]
    elif env.get("sub") is not None:
        chosen = env["sub"]
    else:
        given = [k for k in n["subs"] if isinstance(cfg.get(k), dict) and hasleaf(cfg[k])]
        if given:
            chosen = given[0]
    if chosen is None:
        if n["required"]:
            return "ERR"
        out["sub"] = None
        return out
    out["sub"] = chosen
    sub = model(n["subs"][chosen], cfg.get(chosen) or {}, env.get(chosen) or {}, argv_path[1:] if argv_path else [])
    if sub == "ERR":
        return "ERR"
    out[chosen] = sub
    return out


def env_vars(d, prefix="APP"):
    out = {}
    for k, v in d.items():
        if isinstance(v, dict):
            out.update(env_vars(v, prefix + "_" + k.upper() + "_"))
        else:
            out[(prefix + "_" + k.upper())] = str(v)
    return out


def norm(r):
    from jsonargparse import Namespace

    d = r.as_dict() if isinstance(r, Namespace) else r

    def f(x):
        if isinstance(x, dict):
            return {k: f(v) for k, v in x.items() if k not in ("cfg", "__path__", "g")}
        return x

    return f(d)


def conflicting_choice(n, cfg, argv_path):
    """F22 predicate: at some level the command line chooses another subcommand than the config (explicit key or first with settings)"""
    if not n["subs"] or not isinstance(cfg, dict):
        return False
    cfg_choice = cfg.get("sub")
    if cfg_choice is None:
        given = [k for k in n["subs"] if isinstance(cfg.get(k), dict) and hasleaf(cfg[k])]
        cfg_choice = given[0] if given else None
    if argv_path:
        if cfg_choice is not None and argv_path[0] != cfg_choice:
            return True
        return conflicting_choice(n["subs"][argv_path[0]], cfg.get(argv_path[0]) or {}, argv_path[1:])
    if cfg_choice is not None and cfg_choice in n["subs"]:
        return conflicting_choice(n["subs"][cfg_choice], cfg.get(cfg_choice) or {}, [])
    return False


def run_case(ctx, case):
    import warnings

    from jsonargparse import ArgumentError

    warnings.simplefilter("ignore")
    if case.get("kind") == "dcf":
        return dcf_family(ctx, only=case)
    tree, cfg, env, path, chan = case["tree"], case["cfg"], case["env"], case["path"], case["channel"]
    exp = model(tree, cfg if chan not in ("env",) else {}, env, path)
    old_env = dict(os.environ)
    try:
        if chan == "argv":
            r = build(tree).parse_args((["--cfg", json.dumps(cfg)] if cfg else []) + path)
        elif chan == "argv-subcfg":
            # the settings of the chosen subcommand are given through its own --cfg, after its name
            if not path:
                argv = (["--cfg", json.dumps(cfg)] if cfg else [])
            else:
                top = {k: v for k, v in cfg.items() if k != path[0]}
                sub = cfg.get(path[0]) if isinstance(cfg.get(path[0]), dict) else {}
                argv = (["--cfg", json.dumps(top)] if top else []) + [path[0]] + (["--cfg", json.dumps(sub)] if sub else []) + path[1:]
            r = build(tree).parse_args(argv)
        elif chan == "obj":
            r = build(tree).parse_object(copy.deepcopy(cfg))
        elif chan == "str":
            r = build(tree).parse_string(json.dumps(cfg))
        elif chan == "env":
            r = build(tree).parse_env(env_vars(env))
        else:
            os.environ.update(env_vars(env))
            late = (len(path) + len(json.dumps(env))) % 2 == 1  # (a pure function of the case)
            ctx.cls("default_env:" + ("set-after-assembly" if late else "constructor"))
            r = build(tree, default_env=True, late=late).parse_args((["--cfg", json.dumps(cfg)] if cfg else []) + path)
        got = norm(r)
    except ArgumentError as ex:
        got = "ERR"
        msg = str(ex)
    except Exception as ex:  # noqa
        got = "ERR"
        ctx.cls(f"escape (C03): {type(ex).__name__}@{innermost_pkg_frame(ex)}")
    finally:
        os.environ.clear()
        os.environ.update(old_env)
    ctx.cls(f"channel:{chan}:{'rejected' if got == 'ERR' else 'accepted'}")
    if got != exp:
        if exp != "ERR" and conflicting_choice(tree, cfg, path):
            ctx.finding("C17/F22/sections-of-the-subcommand-chosen-on-the-command-line-are-dropped-when-the-config-selects-another",
                        {"got": short(got, 300), "expected": short(exp, 300)})
        else:
            kind = "model-rejects-impl-accepts" if exp == "ERR" else "model-accepts-impl-rejects" if got == "ERR" else _diff_kind(got, exp)
            ctx.finding(f"C17/{chan}/{kind}", {"got": short(got, 400), "expected": short(exp, 400)})
    sib = _siblings_with_settings(tree, cfg)
    explicit = "sub" in json.dumps(cfg) or "sub" in json.dumps(env)
    if sib or explicit or len(path) >= 2:
        ctx.mark_nontrivial()
    ctx.cls("depth:%d" % _depth(tree))
    ctx.sample()


def _diff_kind(got, exp):
    def keys(d, p=""):
        out = set()
        for k, v in d.items():
            out.add(p + k)
            if isinstance(v, dict):
                out |= keys(v, p + k + ".")
        return out

    gk, ek = keys(got), keys(exp)
    if gk - ek:
        return "extra-keys-in-result"
    if ek - gk:
        return "missing-keys-in-result"
    return "values-differ"


def _siblings_with_settings(n, cfg):
    if not n["subs"] or not isinstance(cfg, dict):
        return False
    given = [k for k in n["subs"] if isinstance(cfg.get(k), dict) and hasleaf(cfg[k])]
    return len(given) >= 2 or any(_siblings_with_settings(n["subs"][k], cfg.get(k)) for k in given)


def _depth(n):
    return 1 + max([_depth(c) for c in n["subs"].values()], default=0) if n["subs"] else 0


def body(ctx):
    def f(case):
        ctx.begin(case)
        run_case(ctx, case)
        ctx.end()

    return f


def dcf_family(ctx, only=None):
    """a default config file of the root parser with a section for every subcommand and no explicit choice: whichever subcommand the
    input names, its section of the default config is part of its settings - with and without environment parsing switched on.
    Enumerated: environment on/off x {argv, object, string, --cfg string} x the subcommand named."""
    import tempfile
    import warnings

    from jsonargparse import ArgumentError, ArgumentParser

    warnings.simplefilter("ignore")
    d = tempfile.mkdtemp(prefix="vf_c17d_")
    f = os.path.join(d, "dcf.yaml")
    with open(f, "w") as fh:
        fh.write(json.dumps({"t": 5, "a": {"o1": 11}, "b": {"o1": 22}, "c": {"o1": 33}}))
    old_env = dict(os.environ)
    try:
        for env in (False, True):
            for how in ("argv", "object", "string", "--cfg string"):
                for ch, want in (("a", 11), ("b", 22), ("c", 33)):
                    case = {"kind": "dcf", "env": env, "how": how, "choice": ch}
                    if only is not None and case != only:
                        continue
                    if only is None:
                        ctx.begin(case)
                    r = ArgumentParser(exit_on_error=False, prog="app", env_prefix="APP", default_env=env, default_config_files=[f])
                    r.add_argument("--cfg", action="config")
                    r.add_argument("--t", type=int, default=0)
                    sc = r.add_subcommands(required=True, dest="sub")
                    for n, dv in (("a", 1), ("b", 2), ("c", 3)):
                        q = ArgumentParser(exit_on_error=False)
                        q.add_argument("--cfg", action="config")
                        q.add_argument("--o1", type=int, default=dv)
                        sc.add_subcommand(n, q)
                    try:
                        c = (r.parse_args([ch]) if how == "argv" else r.parse_object({"sub": ch}) if how == "object" else r.parse_string(json.dumps({"sub": ch}))
                             if how == "string" else r.parse_args(["--cfg", json.dumps({"sub": ch})]))
                        got = (c.sub, c[ch].o1 if ch in c else None, c.t, [k for k in ("a", "b", "c") if k in c])
                    except ArgumentError as ex:
                        got = ("ERR", str(ex)[:200])
                    ctx.cls(f"dcf-family:{how}:env={env}")
                    if got != (ch, want, 5, [ch]):
                        if how == "argv" and ch != "a" and got == (ch, {"b": 2, "c": 3}[ch], 5, [ch]):
                            # the default config implicitly selects the first subcommand with settings; the one named on the command line loses its section
                            ctx.finding("C17/F22/sections-of-the-subcommand-chosen-on-the-command-line-are-dropped-when-the-config-selects-another", {"case": case, "got": short(got, 200)})
                        else:
                            ctx.finding(f"C17/dcf/section-of-the-default-config-not-in-the-chosen-subcommand/{how}/env={env}", {"choice": ch, "got": short(got, 200), "expected": [ch, want, 5, [ch]]})
                    if only is None:
                        ctx.mark_nontrivial_enumerated()
                        if not ctx.end(raise_on_fail=False):
                            return
    finally:
        os.environ.clear()
        os.environ.update(old_env)
        import shutil

        shutil.rmtree(d, ignore_errors=True)


def plan(tier):
    if tier == "quick":
        return [{"kind": "dcf"}] + [{"n": 1500} for _ in range(16)]
    return [{"kind": "dcf"}] + [{"n": 8000} for _ in range(16)]


def run_shard(spec, ctx):
    if spec.get("kind") == "dcf":
        return dcf_family(ctx)
    run_given(ctx, case_strategy(), body(ctx), spec["n"])


def health(tier, evaluations, nontrivial, classes):
    msgs = []
    for c in ("channel:argv:accepted", "channel:argv:rejected", "channel:obj:accepted", "channel:env:accepted", "channel:env+argv:accepted", "channel:argv-subcfg:accepted", "depth:2"):
        if classes.get(c, 0) < 20:
            msgs.append(f"class {c} nearly absent ({classes.get(c, 0)})")
    return msgs


def self_test():
    leaf = {"opts": {"o1": 1}, "subs": {}, "required": True}
    tree = {"opts": {"o2": 5}, "required": True, "subs": {"a": leaf, "b": {"opts": {}, "required": False, "subs": {"c": leaf}}}}
    assert model(tree, {}, {}, []) == "ERR"
    assert model(tree, {"b": {}}, {}, []) == "ERR"  # an empty section is not a setting
    assert model(tree, {"a": {"o1": 3}, "b": {"c": {"o1": 4}}}, {}, []) == {"o2": 5, "sub": "a", "a": {"o1": 3}}
    assert model(tree, {"a": {"o1": 3}, "sub": "b"}, {}, []) == {"o2": 5, "sub": "b", "b": {"sub": None}}
    assert model(tree, {"a": {"o1": 3}}, {"a": {"o1": 8}, "o2": 9}, ["a"]) == {"o2": 9, "sub": "a", "a": {"o1": 3}}
    assert env_vars({"o2": 1, "a": {"o1": 2}, "sub": "a"}) == {"APP_O2": "1", "APP_A__O1": "2", "APP_SUB": "a"}
    assert conflicting_choice(tree, {"sub": "a"}, ["b"]) and not conflicting_choice(tree, {"sub": "a"}, ["a"])

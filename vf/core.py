"""Shared machinery: case encoding, finding records, per-shard collector (Ctx), Hypothesis driver.

Protocol (DESIGN.md 2.4): a property body never asserts directly.  It calls ``ctx.finding(signature, detail)``
for every divergence it sees while executing one *case* (plain data).  A signature that is listed as ``known`` in
known_findings.json is counted and the search goes on; anything else makes the case a failure: inside Hypothesis
the failure is raised so that the case is shrunk, in enumerations the first failing case is kept.
"""
from __future__ import annotations

import hashlib
import json
import math
import os
import sys
import time
import traceback
from collections import Counter

ROOT = os.environ.get("VERIF_ROOT") or os.path.dirname(os.path.dirname(os.path.abspath(__file__)))
REPO = os.environ.get("VERIF_REPO", "/repo")


# ----------------------------------------------------------------------------------------------- encoding
def enc(o):
    """Encode a python value (cases, samples) as JSON-able data, keeping tuples/sets/bytes/non-finite floats apart."""
    if o is None or isinstance(o, (bool, str)):
        return o
    if isinstance(o, int):
        return o if -(2**63) < o < 2**63 else {"$t": "int", "v": str(o)}
    if isinstance(o, float):
        if math.isfinite(o):
            return o
        return {"$t": "float", "v": repr(o)}
    if isinstance(o, list):
        return [enc(x) for x in o]
    if isinstance(o, tuple):
        return {"$t": "tuple", "v": [enc(x) for x in o]}
    if isinstance(o, (set, frozenset)):
        return {"$t": "set", "v": sorted((enc(x) for x in o), key=lambda e: json.dumps(e, sort_keys=True))}
    if isinstance(o, (bytes, bytearray)):
        return {"$t": type(o).__name__, "v": bytes(o).hex()}
    if isinstance(o, dict):
        if all(isinstance(k, str) and not k.startswith("$t") for k in o):
            return {k: enc(v) for k, v in o.items()}
        return {"$t": "dict", "v": [[enc(k), enc(v)] for k, v in o.items()]}
    return {"$t": "repr", "v": repr(o)}


def dec(o):
    if isinstance(o, list):
        return [dec(x) for x in o]
    if isinstance(o, dict):
        t = o.get("$t")
        if t is None:
            return {k: dec(v) for k, v in o.items()}
        v = o["v"]
        if t == "int":
            return int(v)
        if t == "float":
            return float(v)
        if t == "tuple":
            return tuple(dec(x) for x in v)
        if t == "set":
            return set(dec(x) for x in v)
        if t == "bytes":
            return bytes.fromhex(v)
        if t == "bytearray":
            return bytearray.fromhex(v)
        if t == "dict":
            return {dec(k): dec(x) for k, x in v}
        if t == "repr":
            return v
    return o


def stable_hash(o) -> int:
    s = json.dumps(enc(o), sort_keys=True, ensure_ascii=True, default=repr)
    return int.from_bytes(hashlib.blake2b(s.encode(), digest_size=8).digest(), "big")


def derive_seed(*parts) -> int:
    s = "/".join(str(p) for p in parts)
    return int.from_bytes(hashlib.blake2b(s.encode(), digest_size=4).digest(), "big")


def short(o, n=300):
    s = o if isinstance(o, str) else repr(o)
    return s if len(s) <= n else s[:n] + "...<%d more>" % (len(s) - n)


# ----------------------------------------------------------------------------------------------- findings
class HarnessError(Exception):
    """The machinery itself is wrong (generator health, oracle self-test, model/interpreter disagreement)."""


class CaseFailed(AssertionError):
    """Raised inside Hypothesis for a case with an unlisted finding (so that it gets shrunk)."""


def load_known(prop):
    path = os.path.join(ROOT, "known_findings.json")
    known, fixed = {}, {}
    if os.path.exists(path):
        for e in json.load(open(path))["findings"]:
            if e["property"] != prop:
                continue
            (known if e["status"] == "known" else fixed)[e["signature"]] = e
    return known, fixed


class Ctx:
    """Collector handed to a check's shard function."""

    MAX_SAMPLES = 6

    def __init__(self, prop, tier, seed, shard=0):
        self.prop, self.tier, self.seed, self.shard = prop, tier, seed, shard
        self.known, self.fixed = load_known(prop)
        self.collect = bool(os.environ.get("VERIF_COLLECT"))
        self.evaluations = 0
        self.nontrivial = set()
        self.nt_enumerated = 0  # non-trivial cases that are distinct by construction (complete enumerations)
        self.classes = Counter()
        self.samples = []
        self.nt_samples = []
        self.known_hits = Counter()
        self.excluded = Counter()
        self.violation = None  # dict(signature, case, detail)
        self.extra = {}
        self._case = None
        self._case_findings = []
        self.t0 = time.time()

    # -- bookkeeping -----------------------------------------------------------------------------
    def cls(self, label, n=1):
        self.classes[label] += n

    def exclude(self, label, n=1):
        self.excluded[label] += n

    def begin(self, case):
        """Start executing one case (plain data)."""
        self._case = case
        self._case_findings = []
        self.evaluations += 1
        if "vf.gen.types" in sys.modules:  # equivalent spellings of the generated hints (DESIGN 3.1b); 0 = canonical
            sp = case.get("spell", 0) if isinstance(case, dict) else 0
            sys.modules["vf.gen.types"].set_spell(sp)
            if sp:
                self.classes["spelling:non-canonical"] += 1

    def mark_nontrivial(self, key=None):
        h = stable_hash(self._case if key is None else key)
        if h not in self.nontrivial:
            self.nontrivial.add(h)
            if len(self.nt_samples) < self.MAX_SAMPLES:
                self.nt_samples.append(enc(self._case))

    def mark_nontrivial_enumerated(self):
        """for enumerations that never repeat a case: count instead of hashing (millions of cases)"""
        self.nt_enumerated += 1
        if len(self.nt_samples) < self.MAX_SAMPLES and self.nt_enumerated % 997 == 1:
            self.nt_samples.append(enc(self._case))

    def sample(self, case=None):
        if len(self.samples) < 3:
            self.samples.append(enc(self._case if case is None else case))

    def finding(self, signature, detail=None):
        """Record a divergence of the current case. Returns True when it is a listed known finding."""
        if signature in self.known:
            self.known_hits[signature] += 1
            return True
        if self.collect:  # development aid: bucket everything, never fail
            self.known_hits[signature] += 1
            ex = self.extra.setdefault("collected", {})
            c = json.dumps(enc(self._case))
            if signature not in ex or len(c) < len(ex[signature][0]):
                ex[signature] = (c, short(detail, 600))
            return True
        self._case_findings.append({"signature": signature, "detail": short(detail, 2000) if detail is not None else None})
        return False

    def end(self, raise_on_fail=True):
        """Finish the current case. Unlisted findings make it fail."""
        if self._case_findings:
            f = self._case_findings[0]
            v = {"signature": f["signature"], "detail": f["detail"], "case": enc(self._case),
                 "all_signatures": sorted({x["signature"] for x in self._case_findings})}
            self.violation = v  # the last failing case seen wins (Hypothesis replays the minimal one last)
            if raise_on_fail:
                raise CaseFailed(f["signature"] + " :: " + str(f["detail"]))
            return False
        return True

    def result(self):
        return {
            "shard": self.shard,
            "evaluations": self.evaluations,
            "nontrivial": sorted(self.nontrivial),
            "nt_enumerated": self.nt_enumerated,
            "classes": dict(self.classes),
            "samples": self.samples,
            "nt_samples": self.nt_samples,
            "known_hits": dict(self.known_hits),
            "excluded": dict(self.excluded),
            "violation": self.violation,
            "extra": self.extra,
            "wall_s": round(time.time() - self.t0, 3),
        }


# ----------------------------------------------------------------------------------------------- hypothesis driver
def hyp_settings(max_examples, shrink=True, stateful_steps=None):
    from hypothesis import HealthCheck, Phase, settings

    kw = dict(
        max_examples=max_examples,
        deadline=None,
        database=None,
        report_multiple_bugs=False,
        suppress_health_check=[HealthCheck.too_slow, HealthCheck.data_too_large, HealthCheck.large_base_example,
                               HealthCheck.function_scoped_fixture, HealthCheck.differing_executors],
        phases=[Phase.generate, Phase.shrink] if shrink else [Phase.generate],
        print_blob=False,
    )
    if stateful_steps is not None:
        kw["stateful_step_count"] = stateful_steps
    return settings(**kw)


def with_spellings(strategy):
    """every second case uses non-canonical but equivalent spellings of its type hints (list[int], Mapping, X | None, Annotated ...)"""
    from hypothesis import strategies as st

    return st.tuples(strategy, st.one_of(st.just(0), st.integers(1, 2**20))).map(
        lambda t: {**t[0], "spell": t[1]} if isinstance(t[0], dict) and t[1] and "spell" not in t[0] else t[0])


def run_given(ctx, strategy, body, max_examples, shrink=True):
    """Drive ``body(case)`` with cases drawn from ``strategy``.

    ``body`` must call ctx.begin(case) ... ctx.end().  An unlisted finding raises CaseFailed, Hypothesis shrinks it and
    ctx.violation holds the minimal failing case afterwards.  Any other exception escaping ``body`` is a harness error.
    """
    from hypothesis import given, seed
    from hypothesis.errors import FailedHealthCheck, Unsatisfiable

    @seed(ctx.seed)
    @hyp_settings(max_examples, shrink=shrink)
    @given(strategy)
    def test(case):
        body(case)

    try:
        test()
    except CaseFailed:
        pass  # ctx.violation is set
    except (FailedHealthCheck, Unsatisfiable) as ex:
        raise HarnessError(f"generator health: {ex}") from ex


def run_machine(ctx, machine_cls, max_examples, steps, shrink=True):
    from hypothesis import seed
    from hypothesis.errors import FailedHealthCheck
    from hypothesis.stateful import run_state_machine_as_test

    try:
        run_state_machine_as_test(seed(ctx.seed)(machine_cls), settings=hyp_settings(max_examples, shrink, steps))
    except CaseFailed:
        pass
    except FailedHealthCheck as ex:
        raise HarnessError(f"generator health: {ex}") from ex


def run_atheris(ctx, strategy, body, runs, flush_every=2000):
    """Drive the same Hypothesis strategy with libFuzzer's coverage feedback (atheris + fuzz_one_input).  libFuzzer never returns,
    so the shard result is flushed to ctx.result_file from inside the target: every ``flush_every`` executions, on the first
    unlisted finding (then the process exits) and when the requested number of runs is reached."""
    import shutil
    import tempfile

    import atheris
    from hypothesis import given

    @hyp_settings(1, shrink=False)
    @given(strategy)
    def test(case):
        body(case)

    fuzz_one = test.hypothesis.fuzz_one_input
    state = {"n": 0}
    corpus = tempfile.mkdtemp(prefix="vf_corpus_")

    def flush(final=False):
        res = dict(ctx.res_base)
        res.update(ctx.result())
        res.setdefault("extra", {})["atheris_executions"] = state["n"]
        with open(ctx.result_file, "w") as f:
            json.dump(res, f)
        if final:
            shutil.rmtree(corpus, ignore_errors=True)
            sys.stdout.flush()
            os._exit(0)

    def target(data):
        state["n"] += 1
        try:
            fuzz_one(data)
        except CaseFailed:
            flush(final=True)  # ctx.violation holds the failing case (no shrinking under libFuzzer: the case is kept as found)
        if state["n"] % flush_every == 0:
            flush()
        if state["n"] >= runs:
            flush(final=True)

    atheris.Setup([sys.argv[0], f"-runs={runs + 1000}", f"-seed={ctx.seed % 2**31 or 1}", "-max_len=4096", "-len_control=0", "-print_final_stats=1", corpus], target)
    flush()
    atheris.Fuzz()


def fmt_exc(ex):
    return f"{type(ex).__name__}: {short(str(ex), 400)}"


def innermost_pkg_frame(ex, pkg="jsonargparse"):
    """(file basename, function) of the innermost traceback frame inside the package - a root-cause bucket key."""
    tb = ex.__traceback__
    hit = None
    while tb is not None:
        fn = tb.tb_frame.f_code.co_filename
        if os.sep + pkg + os.sep in fn:
            hit = (os.path.basename(fn), tb.tb_frame.f_code.co_name)
        tb = tb.tb_next
    return hit
